----------------------------- MODULE Validate_MC -----------------------------
(***************************************************************************)
(* Decision table of validate_h5ad x the lattice of magnitudes at the      *)
(* boundaries of the integer types: design invariants and scenario source. *)
(***************************************************************************)
EXTENDS Validate
VARIABLES mode, lo, hi, genes, layerIsX, round, integral, phase, dupCells, emptyName
vars == <<mode, lo, hi, genes, layerIsX, round, integral, phase, dupCells, emptyName>>
Ds == {-4, -3, -2, -1, 0, 1, 2, 3}
Lattice == {[s |-> s, k |-> k, d |-> d] : s \in {1, -1}, k \in Ks, d \in Ds}
            \ {[s |-> -1, k |-> 32, d |-> d] : d \in Ds}
GeneSets == {<<[cls |-> "ens", id |-> 1], [cls |-> "ens", id |-> 2]>>,
             <<[cls |-> "ens", id |-> 1], [cls |-> "unk", id |-> 2]>>,          \* identifiers and unknown names, no symbol
             <<[cls |-> "ensv", id |-> 1], [cls |-> "unk", id |-> 2], [cls |-> "unk", id |-> 3]>>,
             <<[cls |-> "ens", id |-> 1], [cls |-> "ensv", id |-> 2]>>,
             <<[cls |-> "sym", id |-> 1], [cls |-> "ens", id |-> 2], [cls |-> "unk", id |-> 3]>>,
             <<[cls |-> "unk", id |-> 1], [cls |-> "sym", id |-> 2], [cls |-> "unk", id |-> 3]>>,
             <<[cls |-> "sym", id |-> 1], [cls |-> "sym", id |-> 2]>>,
             <<[cls |-> "ens", id |-> 1], [cls |-> "ensv", id |-> 1]>>,         \* two genes, one identifier
             <<[cls |-> "sym", id |-> 2], [cls |-> "ens", id |-> 2]>>,          \* symbol maps onto a present id
             <<[cls |-> "ens", id |-> 1], [cls |-> "ens", id |-> 1]>>,          \* duplicate name
             <<[cls |-> "unk", id |-> 1], [cls |-> "unk", id |-> 2]>>}          \* nothing can be mapped
Plain == <<[cls |-> "ens", id |-> 1], [cls |-> "ens", id |-> 2]>>
Init == \/ /\ mode = "range" /\ lo \in Lattice /\ hi \in Lattice /\ Leq(lo, hi)
           /\ genes = Plain /\ layerIsX \in BOOLEAN /\ round = TRUE /\ integral = FALSE /\ phase = "new"
           /\ dupCells = FALSE /\ emptyName = FALSE
        \/ /\ mode = "reject" /\ lo = Zero /\ hi = [s |-> 1, k |-> 7, d |-> -1]
           /\ genes = Plain /\ layerIsX \in BOOLEAN /\ round \in BOOLEAN /\ integral = TRUE /\ phase = "new"
           /\ dupCells \in BOOLEAN /\ emptyName \in BOOLEAN /\ (dupCells \/ emptyName)
        \/ /\ mode = "zero" /\ lo = Zero /\ hi = Zero        \* a matrix without any count (sparse: no stored value at all)
           /\ genes \in {Plain, <<[cls |-> "sym", id |-> 1], [cls |-> "ens", id |-> 2], [cls |-> "unk", id |-> 3]>>}
           /\ layerIsX \in BOOLEAN /\ round \in BOOLEAN /\ integral = TRUE
           /\ phase = "new" /\ dupCells = FALSE /\ emptyName = FALSE
        \/ /\ mode = "table" /\ lo = Zero /\ hi = [s |-> 1, k |-> 7, d |-> -1]
           /\ genes \in GeneSets /\ layerIsX \in BOOLEAN /\ round \in BOOLEAN /\ integral \in BOOLEAN
           /\ phase = "new" /\ dupCells = FALSE /\ emptyName = FALSE
Emit == /\ phase = "new"
        /\ PrintT(<<"SCN", ToJson([mode |-> mode, lo |-> lo, hi |-> hi, rlo |-> RoundHE(lo), rhi |-> RoundHE(hi),
                                   dtype |-> ChooseIntType(lo, hi), genes |-> genes, layerIsX |-> layerIsX,
                                   round |-> round, integral |-> integral,
                                   reject |-> MustReject(genes, dupCells, emptyName), dupCells |-> dupCells, emptyName |-> emptyName, mayreject |-> MayReject(genes),
                                   copy |-> NeedsCopy(layerIsX, genes, round, integral),
                                   rounds |-> Rounds(round, integral),
                                   mapped |-> Mapped(genes), nmapped |-> NMapped(genes)])>>)
        /\ phase' = "emitted" /\ UNCHANGED <<mode, lo, hi, genes, layerIsX, round, integral, dupCells, emptyName>>
Spec == Init /\ [][Emit]_vars
\* design invariants
RoundMovesHalf == MovedAtMostHalf(lo) /\ MovedAtMostHalf(hi) /\ Integral(RoundHE(lo)) /\ Integral(RoundHE(hi))
TypeHoldsRange == LET t == ChooseIntType(lo, hi) IN Fits(t, lo, hi)
RoundMonotone == Leq(RoundHE(lo), RoundHE(hi))
NoCopyMeansNothingToDo == ~NeedsCopy(layerIsX, genes, round, integral) => (layerIsX /\ ~Renamed(genes))
=============================================================================
