------------------------------ MODULE Evaluate ------------------------------
(***************************************************************************)
(* avg_f1 (evaluation/f1_scores.py): scoring a mapping against the truth.  *)
(*                                                                         *)
(* Levels are 1..L (coarse to fine).  A cell is a record                   *)
(*   [truth, asg : 1..L -> node,  k : 1..L -> 0..B (votes out of B),       *)
(*    corr : 1..L -> integer tenths]                                       *)
(* A cut is <<"p", num, den>> (aggregate probability >= num/den) or        *)
(* <<"c", tenths>> (average correlation >= tenths/10 at this level AND at  *)
(* every level above).  At a level and under a cut a cell is COUNTED when  *)
(* the cut lets it through; then                                           *)
(*   true positive  of its true node  : assigned = true and counted        *)
(*   false negative of its true node  : otherwise                          *)
(*   false positive of its assigned node : assigned # true and counted     *)
(* All arithmetic is integer: the aggregate probability of a cell down to  *)
(* level i is (k[1] * .. * k[i]) / B^i.                                    *)
(***************************************************************************)
EXTENDS Integers, Sequences, FiniteSets, FiniteSetsExt

RECURSIVE Prod(_, _)
Prod(f, i) == IF i = 0 THEN 1 ELSE f[i] * Prod(f, i - 1)
RECURSIVE Pow(_, _)
Pow(b, e) == IF e = 0 THEN 1 ELSE b * Pow(b, e - 1)

Counted(cell, lev, cut, B) ==
    IF cut[1] = "p"
    THEN Prod(cell.k, lev) * cut[3] >= cut[2] * Pow(B, lev)          \* agg >= num/den
    ELSE \A j \in 1..lev : cell.corr[j] >= cut[2]

IsTrue(cell, lev) == cell.asg[lev] = cell.truth[lev]

\* cells : a sequence (a cell may occur twice); counts are over positions
TP(cells, lev, cut, B, n) == Cardinality({i \in 1..Len(cells) :
                                 cells[i].truth[lev] = n /\ IsTrue(cells[i], lev) /\ Counted(cells[i], lev, cut, B)})
FN(cells, lev, cut, B, n) == Cardinality({i \in 1..Len(cells) :
                                 cells[i].truth[lev] = n /\ ~(IsTrue(cells[i], lev) /\ Counted(cells[i], lev, cut, B))})
FP(cells, lev, cut, B, n) == Cardinality({i \in 1..Len(cells) :
                                 cells[i].asg[lev] = n /\ ~IsTrue(cells[i], lev) /\ Counted(cells[i], lev, cut, B)})
NCells(cells, lev, n) == Cardinality({i \in 1..Len(cells) : cells[i].truth[lev] = n})

Sum(f, S) == FoldSet(LAMBDA x, acc : acc + f[x], 0, S)
TotTP(cells, lev, cut, B, Nodes) == Sum([n \in Nodes |-> TP(cells, lev, cut, B, n)], Nodes)
TotFN(cells, lev, cut, B, Nodes) == Sum([n \in Nodes |-> FN(cells, lev, cut, B, n)], Nodes)
TotFP(cells, lev, cut, B, Nodes) == Sum([n \in Nodes |-> FP(cells, lev, cut, B, n)], Nodes)

\* F1 of a node as a fraction <<2 tp, 2 tp + fn + fp>>; undefined (no cell of that type, none assigned to it) when the
\* denominator is 0
F1(cells, lev, cut, B, n) ==
    LET tp == TP(cells, lev, cut, B, n) IN <<2 * tp, 2 * tp + FN(cells, lev, cut, B, n) + FP(cells, lev, cut, B, n)>>
Valid(cells, lev, cut, B, Nodes) == {n \in Nodes : F1(cells, lev, cut, B, n)[2] > 0}
Micro(cells, lev, cut, B, Nodes) ==
    LET tp == TotTP(cells, lev, cut, B, Nodes) IN
    <<2 * tp, 2 * tp + TotFN(cells, lev, cut, B, Nodes) + TotFP(cells, lev, cut, B, Nodes)>>
\* sum of the defined per-node F1 values as one fraction
AddFrac(a, b) == <<a[1] * b[2] + b[1] * a[2], a[2] * b[2]>>
MacroSum(cells, lev, cut, B, Nodes) ==
    FoldSet(LAMBDA n, acc : AddFrac(acc, F1(cells, lev, cut, B, n)), <<0, 1>>, Valid(cells, lev, cut, B, Nodes))
\* naive estimate of false positives: the sum over counted cells of 1 - aggregate probability, numerator over B^lev
EstFPNum(cells, lev, cut, B) ==
    Sum([i \in 1..Len(cells) |-> IF Counted(cells[i], lev, cut, B) THEN Pow(B, lev) - Prod(cells[i].k, lev) ELSE 0],
        1..Len(cells))
=============================================================================
