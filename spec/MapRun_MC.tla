------------------------------ MODULE MapRun_MC ------------------------------
(***************************************************************************)
(* Exhaustive design check of MapRun for small runs (C01, C03 structure)   *)
(* and source of the C01 scenarios replayed into the real mapper.          *)
(* Votes are abstracted (run.votes = FALSE): at every node any child may   *)
(* win with any admissible vote count; C01 does not depend on who wins.    *)
(* Every tree shape up to MaxLevels / MaxLeaves (incl. single-child chains *)
(* and a single top node) x drop of each level / flatten / none x number   *)
(* of cells x chunk size x worker count.                                   *)
(***************************************************************************)
EXTENDS MapRun, Json

CONSTANTS MaxLevels, MaxLeaves, MaxCells, MaxChunk, MaxP, BB, KK

Mono(f, n)    == \A i \in 1..(n - 1) : f[i] <= f[i + 1]
Surj(f, n, m) == \A p \in 1..m : \E i \in 1..n : f[i] = p
NoCells(m) == [j \in 1..m |-> {}]
Flat(n) == [hier |-> <<1>>, keys |-> {1}, nodes |-> [x \in {1} |-> 1..n],
            kids |-> [x \in {1} |-> [j \in 1..n |-> {}]], cells |-> NoCells(n)]
Extend(S, m, f) ==
    LET L == Len(S.hier) nl == L + 1 old == S.hier[L]
    IN [hier  |-> Append(S.hier, nl), keys |-> S.keys \cup {nl},
        nodes |-> [x \in S.keys \cup {nl} |-> IF x = nl THEN 1..m ELSE S.nodes[x]],
        kids  |-> [x \in S.keys \cup {nl} |->
                     IF x = nl THEN [j \in 1..m |-> {}]
                     ELSE IF x = old THEN [p \in S.nodes[old] |-> {j \in 1..m : f[j] = p}]
                     ELSE S.kids[x]],
        cells |-> NoCells(m)]

RECURSIVE ShapesFrom(_, _)
ShapesFrom(S, depth) ==
    IF depth = 0 THEN {S}
    ELSE LET n == Cardinality(AllLeaves(S)) IN
         {S} \cup UNION {UNION {ShapesFrom(Extend(S, m, f), depth - 1)
                                   : f \in {g \in [1..m -> 1..n] : Mono(g, m) /\ Surj(g, m, n)}}
                            : m \in n..MaxLeaves}
Shapes == UNION {ShapesFrom(Flat(n), MaxLevels - 1) : n \in 1..MaxLeaves}

VARIABLES final
vars == <<run, R, recon, nextRow, cur, asg, vk, phase, errs, final>>

Init ==
    /\ \E T \in Shapes : \E nc \in 1..MaxCells : \E cs \in 1..MaxChunk : \E P \in 1..MaxP :
       \E flat \in BOOLEAN : \E drop \in {0} \cup {lv \in Levels(T) : CanDrop(T, lv)} :
         MRInit([T |-> T, drop |-> drop, flat |-> flat, G |-> 1,
                 means |-> [lf \in AllLeaves(T) |-> <<0>>],
                 qg |-> <<1>>, Q |-> [i \in 1..nc |-> <<0>>], cells |-> [i \in 1..nc |-> 10 + i],
                 table |-> [p \in {Root} |-> {1}], B |-> BB, fnum |-> 1, fden |-> 1, flk |-> <<>>, K |-> KK,
                 chunk |-> cs, P |-> P, minm |-> 1, votes |-> FALSE, draws |-> TRUE])
    /\ final = <<>>

NextChunk ==
    /\ nextRow < NCells
    /\ LET r1 == IF nextRow + ChunkLen < NCells THEN nextRow + ChunkLen ELSE NCells IN
       StartChunk(nextRow, r1, [j \in 1..(r1 - nextRow) |-> run.cells[nextRow + j]])
    /\ UNCHANGED final

\* abstract outcome at a node: any child wins with any number of votes, runners-up are any
\* other children with fewer-or-equal positive votes (kept small: at most one runner-up)
Outcomes(par) ==
    LET ch == Children(R, par) IN
    IF Cardinality(ch) = 1 THEN {[a |-> c, k |-> run.B, ru |-> <<>>] : c \in ch}
    ELSE {[a |-> c, k |-> run.B, ru |-> <<>>] : c \in ch}
         \cup (IF run.K >= 1 /\ run.B >= 2
               THEN {[a |-> c[1], k |-> run.B - 1, ru |-> <<<<c[2], 1>>>>] : c \in {x \in ch \X ch : x[1] # x[2]}}
               ELSE {})

Visit(par) ==
    /\ cur # <<>> /\ RowsAt(par) # {}
    /\ \A i \in RowsAt(par) : ChildLevelOf(R, par) \notin DOMAIN asg[i]
    /\ LET rowsSeq == SetToSortSeq({i - cur[1] : i \in RowsAt(par)}, <)
           gs == IF Cardinality(Children(R, par)) > 1 THEN SetToSeq(recon[par]) ELSE <<>>
           lvs == SetToSeq(LeavesOfParent(R, par))
           tys == [i \in 1..Len(lvs) |-> AncestorAt(R, LeafLevel(R), lvs[i], ChildLevelOf(R, par))]
           drs == IF Cardinality(Children(R, par)) > 1 THEN [d \in 1..run.B |-> <<0>>] ELSE <<>>
       IN \E out \in [1..Len(rowsSeq) -> Outcomes(par)] :
             VisitNode(par, rowsSeq, gs, lvs, tys, drs, out)
    /\ UNCHANGED final

\* gather + re_order + backfill as the code does it: voted levels from asg, removed levels
\* from the child-to-parent table of the stored tree
RECURSIVE PowB(_)
PowB(d) == IF d = 0 THEN 1 ELSE run.B * PowB(d - 1)
ExpectedRecs ==
    LET T == run.T IN
    [i \in 1..NCells |->
       [id |-> run.cells[i],
        lv |-> [p \in 1..Len(T.hier) |->
                  LET lev == T.hier[p] IN
                  IF lev \in Levels(R)
                  THEN [lev |-> lev, a |-> asg[i - 1][lev], direct |-> TRUE, k |-> vk[i - 1][lev],
                        agg |-> ProdK(i - 1, lev, T), hasRu |-> TRUE]
                  ELSE LET f == FinerRunLevel(lev) IN
                       [lev |-> lev, a |-> AncestorAt(T, f, asg[i - 1][f], lev), direct |-> FALSE,
                        k |-> vk[i - 1][f], agg |-> ProdK(i - 1, f, T), hasRu |-> FALSE]]]]

DoFinish == /\ phase = "run" /\ nextRow = NCells /\ ChunkComplete
            /\ Finish(ExpectedRecs) /\ final' = ExpectedRecs

Next == NextChunk \/ (\E par \in AllParentsOf(R) : Visit(par)) \/ DoFinish
Spec == Init /\ [][Next]_vars

\* C01 as a theorem of the design: whenever all chunks are done the records produced by
\* gather/backfill satisfy every clause of FinalErr
C01Holds == (phase = "run" /\ nextRow = NCells /\ ChunkComplete) => FinalErr(ExpectedRecs) = 0
\* the run can always finish: no reachable state is stuck before "done" (checked as: if nothing
\* else is enabled then DoFinish is)
NoStuck == phase = "run" =>
              \/ nextRow < NCells /\ ChunkComplete
              \/ ~ChunkComplete /\ \E par \in AllParentsOf(R) : ENABLED Visit(par)
              \/ nextRow = NCells /\ ChunkComplete

\* scenario emission for the spec -> code direction (one line per initial state)
GenNext == UNCHANGED vars
GenSpec == Init /\ [][GenNext]_vars
SortedSeq(S) == SetToSortSeq(S, <)
TreeJson(S) ==
    [hier |-> S.hier, keys |-> SortedSeq(S.keys),
     nodes |-> [i \in 1..Len(S.hier) |-> SortedSeq(S.nodes[S.hier[i]])],
     kids |-> [i \in 1..Len(S.hier) |->
                 LET ns == SortedSeq(S.nodes[S.hier[i]]) IN
                 [j \in 1..Len(ns) |-> <<ns[j], SortedSeq(S.kids[S.hier[i]][ns[j]])>>]]]
Emit == PrintT(<<"SCN", ToJson([tree |-> TreeJson(run.T), drop |-> run.drop, flat |-> run.flat,
                                ncell |-> NCells, chunk |-> run.chunk, P |-> run.P,
                                runhier |-> R.hier])>>)
=============================================================================
