----------------------------- MODULE DataRelease -----------------------------
(***************************************************************************)
(* Building a taxonomy from the CSV tables of a data release               *)
(* (taxonomy/taxonomy_tree.py: TaxonomyTree.from_data_release;             *)
(* taxonomy/data_release_utils.py).  Extension suite X03.                  *)
(*                                                                         *)
(* Tables (rows are records; text parsing is not modelled):                *)
(*   ann : set of [lev, label, plev, parent]     cluster_annotation_term   *)
(*   mem : set of [lev, levname, alias, label, name]                       *)
(*                                  cluster_to_cluster_annotation_membership*)
(*   cel : sequence of [cell, alias]             cell_metadata (optional)  *)
(*   hier: sequence of the term-set labels to use, top first               *)
(* Levels / labels / names / aliases are integers here (the harness maps   *)
(* strings to numbers; level 0 stands for a term set outside hier).        *)
(***************************************************************************)
EXTENDS Taxonomy

HRng(hier) == {hier[i] : i \in 1..Len(hier)}
HPos(hier, lev) == CHOOSE i \in 1..Len(hier) : hier[i] = lev
Above(hier, lev) == hier[HPos(hier, lev) - 1]
Below(hier, lev) == hier[HPos(hier, lev) + 1]
HasParentLevel(hier, lev) == lev \in HRng(hier) /\ HPos(hier, lev) > 1
LeafOf(hier) == hier[Len(hier)]

(***************************************************************************)
(* Reasons for which the constructor refuses the tables.                   *)
(***************************************************************************)
\* a term of a level below the top whose parent is not in the level above
ParentLevelErr(ann, hier) ==
    \E r \in ann : HasParentLevel(hier, r.lev) /\ r.plev # Above(hier, r.lev)
\* one term-set label with two names (any term set, used or not)
LevelTwoNames(mem) == \E r, s \in mem : r.lev = s.lev /\ r.levname # s.levname
\* a non-leaf level of the hierarchy without any child row
MissingLevel(ann, hier) ==
    \E i \in 1..(Len(hier) - 1) : ~\E r \in ann : r.lev = hier[i + 1] /\ r.plev = hier[i]
\* one (level, label) with two aliases (leaf level) / two names (levels of the hierarchy)
LabelTwoValues(mem, hier) ==
    \/ \E r, s \in mem : r.lev = LeafOf(hier) /\ s.lev = r.lev /\ r.label = s.label /\ r.alias # s.alias
    \/ \E r, s \in mem : r.lev \in HRng(hier) /\ s.lev = r.lev /\ r.label = s.label /\ r.name # s.name
\* one alias for two leaf labels / one name for two labels of a level ("strict aliases")
ValueTwice(mem, hier) ==
    \/ \E r, s \in mem : r.lev = LeafOf(hier) /\ s.lev = r.lev /\ r.label # s.label /\ r.alias = s.alias
    \/ \E r, s \in mem : r.lev \in HRng(hier) /\ s.lev = r.lev /\ r.label # s.label /\ r.name = s.name
CellListedTwice(cel) == \E i, j \in 1..Len(cel) : i # j /\ cel[i].cell = cel[j].cell
AliasUnknown(mem, cel, hier) ==
    \E i \in 1..Len(cel) : ~\E r \in mem : r.lev = LeafOf(hier) /\ r.alias = cel[i].alias

(***************************************************************************)
(* The tree that is built when none of the above applies.                  *)
(* Non-leaf level l holds the PARENTS named by the child rows of the level *)
(* below; with a cell table the leaf level holds only the clusters that    *)
(* own at least one cell, without one it holds the children listed by the  *)
(* level above.                                                            *)
(***************************************************************************)
LabelOfAlias(mem, hier, a) == CHOOSE lab \in {r.label : r \in mem} :
                                 \E r \in mem : r.lev = LeafOf(hier) /\ r.alias = a /\ r.label = lab
Built(ann, mem, cel, hasCells, hier) ==
    LET L == Len(hier)
        leaf == hier[L]
        kidsOf(l, p) == {r.label : r \in {x \in ann : x.lev = Below(hier, l) /\ x.plev = l /\ x.parent = p}}
        nonleaf(l) == {r.parent : r \in {x \in ann : x.lev = Below(hier, l) /\ x.plev = l}}
        leafnodes == IF L = 1 THEN {}
                     ELSE IF hasCells THEN {LabelOfAlias(mem, hier, cel[i].alias) : i \in 1..Len(cel)}
                     ELSE UNION {kidsOf(hier[L - 1], p) : p \in nonleaf(hier[L - 1])}
        nodes == [l \in HRng(hier) |-> IF l = leaf THEN leafnodes ELSE nonleaf(l)]
    IN [hier |-> hier, keys |-> HRng(hier), nodes |-> nodes,
        kids |-> [l \in HRng(hier) |-> IF l = leaf THEN [n \in nodes[l] |-> {}]
                                        ELSE [n \in nodes[l] |-> kidsOf(l, n)]],
        cells |-> [n \in leafnodes |->
                     IF hasCells THEN {cel[i].cell : i \in {j \in 1..Len(cel) :
                                          LabelOfAlias(mem, hier, cel[j].alias) = n}}
                     ELSE {}]]

Reasons(ann, mem, cel, hasCells, hier) ==
    (IF ParentLevelErr(ann, hier) THEN {"parent_level"} ELSE {})
    \cup (IF LevelTwoNames(mem) THEN {"level_two_names"} ELSE {})
    \cup (IF MissingLevel(ann, hier) THEN {"missing_level"} ELSE {})
    \cup (IF LabelTwoValues(mem, hier) THEN {"label_two_values"} ELSE {})
    \cup (IF ValueTwice(mem, hier) THEN {"value_twice"} ELSE {})
    \cup (IF hasCells /\ CellListedTwice(cel) THEN {"cell_twice"} ELSE {})
    \cup (IF hasCells /\ AliasUnknown(mem, cel, hier) THEN {"alias_unknown"} ELSE {})
\* with clean tables the constructor still validates the tree (C10's Accepts)
Outcome(ann, mem, cel, hasCells, hier) ==
    LET rs == Reasons(ann, mem, cel, hasCells, hier) IN
    IF rs # {} THEN rs
    ELSE IF ~Accepts(Built(ann, mem, cel, hasCells, hier)) THEN {"invalid_tree"} ELSE {}

(***************************************************************************)
(* Canonical tables of a tree T (one membership row per leaf and level).   *)
(* NameOf / AliasOf / LevName: injective numberings chosen by the caller.  *)
(***************************************************************************)
AnnOf(T) == UNION {{[lev |-> T.hier[i], label |-> c, plev |-> T.hier[i - 1], parent |-> Parent(T, T.hier[i], c)]
                       : c \in T.nodes[T.hier[i]]} : i \in 2..Len(T.hier)}
MemOf(T, NameOf(_, _), AliasOf(_), LevName(_)) ==
    {[lev |-> l, levname |-> LevName(l), alias |-> AliasOf(c), label |-> AncestorAt(T, LeafLevel(T), c, l),
      name |-> NameOf(l, AncestorAt(T, LeafLevel(T), c, l))] : l \in Levels(T), c \in AllLeaves(T)}
=============================================================================
