------------------------------ MODULE Relations ------------------------------
(***************************************************************************)
(* Relations between the outputs of two mapping runs (metamorphic          *)
(* properties C04, C05, C06, C07, C17).  The harness only projects the     *)
(* outputs; which relation must hold, and whether it does, is decided here.*)
(*                                                                         *)
(* A projected record: [id, lv : Seq of [lev, a, k, ru, direct, f, q]]     *)
(*   a, k, ru, direct as in Outputs.tla; f = sequence of strings (hex      *)
(*   form of every float field: bitwise identity); q = sequence of         *)
(*   integers (the same floats quantised to 1e-8: closeness).              *)
(***************************************************************************)
EXTENDS Taxonomy

Abs(x) == IF x < 0 THEN -x ELSE x

EqDiscrete(x, y) ==
    /\ x.lev = y.lev /\ x.a = y.a /\ x.k = y.k /\ x.direct = y.direct
    /\ Len(x.ru) = Len(y.ru)
    /\ \A i \in 1..Len(x.ru) : x.ru[i][1] = y.ru[i][1] /\ x.ru[i][2] = y.ru[i][2]

EqBits(x, y)  == EqDiscrete(x, y) /\ x.f = y.f
EqClose(x, y) == /\ EqDiscrete(x, y) /\ Len(x.q) = Len(y.q)
                 /\ \A i \in 1..Len(x.q) : Abs(x.q[i] - y.q[i]) <= 1

Lv(rec, lev) == rec.lv[CHOOSE j \in 1..Len(rec.lv) : rec.lv[j].lev = lev]
HasLv(rec, lev) == \E j \in 1..Len(rec.lv) : rec.lv[j].lev = lev
ById(recs, id) == recs[CHOOSE i \in 1..Len(recs) : recs[i].id = id]
Ids(recs) == {recs[i].id : i \in 1..Len(recs)}

\* same cells in the same order, entries related by Eq on the given levels
SameOrder(base, image, levels, Eq(_, _)) ==
    /\ Len(base) = Len(image)
    /\ \A i \in 1..Len(base) :
          /\ base[i].id = image[i].id
          /\ \A lev \in levels : HasLv(base[i], lev) /\ HasLv(image[i], lev)
                                  /\ Eq(Lv(base[i], lev), Lv(image[i], lev))

\* joined on the cell id: every id of `ids` occurs in both and is related by Eq on `levels`
JoinById(base, image, ids, levels, Eq(_, _)) ==
    \A id \in ids :
        /\ id \in Ids(base) /\ id \in Ids(image)
        /\ \A lev \in levels : Eq(Lv(ById(base, id), lev), Lv(ById(image, id), lev))

\* a level that was not voted on carries the ancestor (in the stored tree T) of the record's
\* assignment at the finer level `from`, is flagged inferred and repeats its numbers
InferredFrom(recs, T, lev, from) ==
    \A i \in 1..Len(recs) :
        LET x == Lv(recs[i], lev) y == Lv(recs[i], from) IN
        /\ x.a = AncestorAt(T, from, y.a, lev)
        /\ ~x.direct /\ Len(x.ru) = 0
        /\ x.k = y.k /\ SubSeq(x.f, 1, 3) = SubSeq(y.f, 1, 3)   \* probability, correlation, aggregate

\* exactly the levels of the stored tree, one entry each
AllLevels(recs, T) ==
    \A i \in 1..Len(recs) : {recs[i].lv[j].lev : j \in 1..Len(recs[i].lv)} = Levels(T)
                             /\ Len(recs[i].lv) = Len(T.hier)
=============================================================================
