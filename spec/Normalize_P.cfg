SPECIFICATION PSpec
CONSTANTS AllGenes = {1, 2, 3} MaxOps = 5
INVARIANT DenominatorAllGenes
INVARIANT NormalisedBeforeUse
CHECK_DEADLOCK FALSE
