----------------------------- MODULE FileTracker -----------------------------
(***************************************************************************)
(* The class that stages files in a fast scratch directory                 *)
(* (file_tracker/file_tracker.py: FileTracker), used by run_mapping for    *)
(* the query and the statistics file.  Extension suite X04.                *)
(*                                                                         *)
(* File system: each path of Paths is "file" (with a content token),       *)
(* "dir", "free" (does not exist, parent directory exists) or "orphan"     *)
(* (does not exist, parent missing).  The tracker keeps, per added path,   *)
(* where its working copy lives and whether the file existed when added;   *)
(* outputs that did not exist are copied out when the tracker is released. *)
(* Contents are natural numbers: 0.. for what was there before, the user   *)
(* writes fresh values into working copies.                                *)
(***************************************************************************)
EXTENDS Integers, Sequences, FiniteSets

CONSTANTS Paths, UseTmp, MaxOps

VARIABLES kind,      \* Paths -> {"file", "dir", "free", "orphan"}
          data,      \* Paths -> content of the file at the path (0 if none)
          loc,       \* tracked path -> "self" (no scratch dir) or "tmp"
          tmpdata,   \* tracked path -> content of the working copy (-1: empty placeholder)
          pre,       \* tracked path -> existed when added
          towrite,   \* sequence of paths to copy out at release
          alive,     \* tracker not yet released
          tmpdir,    \* scratch directory of the tracker exists
          nops, last \* bookkeeping: number of operations, outcome of the last one
vars == <<kind, data, loc, tmpdata, pre, towrite, alive, tmpdir, nops, last>>

Init == /\ kind \in [Paths -> {"file", "dir", "free", "orphan"}]
        /\ data = [p \in Paths |-> IF kind[p] = "file" THEN 1 ELSE 0]
        /\ loc = <<>> /\ tmpdata = <<>> /\ pre = <<>> /\ towrite = <<>>
        /\ alive = TRUE /\ tmpdir = UseTmp /\ nops = 0 /\ last = "init"

Tracked == DOMAIN loc
\* what the user finds at the location handed out for a tracked path (without a scratch directory that
\* location is the path itself)
Working(p) == IF loc[p] = "tmp" THEN tmpdata[p] ELSE IF kind[p] = "file" THEN data[p] ELSE -1
Ext(f, k, v) == [x \in (DOMAIN f) \cup {k} |-> IF x = k THEN v ELSE f[x]]

\* add_file(path, input_only)
AddOutcome(p, inputOnly) ==
    IF kind[p] = "file" THEN "ok"
    ELSE IF kind[p] = "dir" THEN "not_a_file"               \* exists but is not a file
    ELSE IF inputOnly THEN "missing"                          \* an input that is not there
    ELSE IF kind[p] = "orphan" THEN "no_parent"               \* could not be written later
    ELSE "ok"
Add(p, inputOnly) ==
    /\ alive /\ nops < MaxOps
    /\ LET o == AddOutcome(p, inputOnly) IN
       /\ last' = o
       /\ IF o # "ok" THEN UNCHANGED <<loc, tmpdata, pre, towrite>>
          ELSE /\ pre' = Ext(pre, p, kind[p] = "file")
               /\ loc' = Ext(loc, p, IF UseTmp THEN "tmp" ELSE "self")
               /\ tmpdata' = Ext(tmpdata, p, IF kind[p] = "file" THEN data[p] ELSE -1)
               \* an output is copied out at release only if it did not exist when it was added;
               \* adding the same path again appends it again (copied twice, harmless)
               /\ towrite' = IF UseTmp /\ ~inputOnly /\ kind[p] # "file" THEN Append(towrite, p) ELSE towrite
    /\ nops' = nops + 1 /\ UNCHANGED <<kind, data, alive, tmpdir>>

\* the user writes into the location the tracker handed out
Write(p, v) ==
    /\ alive /\ nops < MaxOps /\ p \in Tracked
    /\ IF loc[p] = "tmp" THEN tmpdata' = [tmpdata EXCEPT ![p] = v] /\ UNCHANGED <<kind, data>>
       ELSE /\ kind[p] \in {"file", "free"}
            /\ kind' = [kind EXCEPT ![p] = "file"] /\ data' = [data EXCEPT ![p] = v] /\ UNCHANGED tmpdata
    /\ nops' = nops + 1 /\ last' = "written" /\ UNCHANGED <<loc, pre, towrite, alive, tmpdir>>

\* release (__del__): copy out the new outputs, remove the scratch directory
Release ==
    /\ alive /\ alive' = FALSE /\ tmpdir' = FALSE
    /\ kind' = [p \in Paths |-> IF \E i \in 1..Len(towrite) : towrite[i] = p THEN "file" ELSE kind[p]]
    /\ data' = [p \in Paths |-> IF \E i \in 1..Len(towrite) : towrite[i] = p THEN tmpdata[p] ELSE data[p]]
    /\ last' = "released" /\ nops' = nops + 1
    /\ UNCHANGED <<loc, tmpdata, pre, towrite>>

Next == (\E p \in Paths, io \in BOOLEAN : Add(p, io)) \/ (\E p \in Paths, v \in {7, 8} : Write(p, v)) \/ Release
Spec == Init /\ [][Next]_vars

\* ------------------------------------------------------------------ properties
\* with a scratch directory nothing outside it changes before the release
InputsUntouchedWhileAlive == (alive /\ UseTmp) => \A p \in Paths : data[p] = (IF kind[p] = "file" THEN 1 ELSE 0)
\* a file that existed when it was added is never written by the tracker, not even at release
PreExistingNeverOverwritten == UseTmp => \A p \in Tracked : pre[p] => (kind[p] = "file" /\ data[p] = 1)
\* after the release every new output holds what was last written to its working copy
OutputsDelivered == (~alive /\ UseTmp) => \A i \in 1..Len(towrite) :
                        kind[towrite[i]] = "file" /\ data[towrite[i]] = tmpdata[towrite[i]]
ScratchGone == ~alive => ~tmpdir
\* only paths handed in as outputs that did not exist are created
OnlyRequestedCreated == \A p \in Paths : (kind[p] = "file" /\ data[p] # 1) =>
                            (p \in Tracked /\ (~UseTmp \/ \E i \in 1..Len(towrite) : towrite[i] = p))
=============================================================================
