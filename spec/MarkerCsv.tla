------------------------------ MODULE MarkerCsv ------------------------------
(***************************************************************************)
(* Marker table read from a directory of per-parent CSV files              *)
(* (marker_lookup/marker_lookup.py: marker_lookup_from_tree_and_csv).      *)
(* Extension suite X06.                                                    *)
(*                                                                         *)
(* A readable name is a sequence of tokens (the pieces between blanks);    *)
(* a token is [num : BOOLEAN (starts with a digit), id : Nat, slash :      *)
(* BOOLEAN (contains "/")].  The file of a parent is named from its level  *)
(* (position in the hierarchy + 1, the root being 1) and its name with a   *)
(* leading numeric token removed, blanks turned into "+" and "/" into      *)
(* "__": two names with the same remaining tokens share a file.            *)
(***************************************************************************)
EXTENDS Taxonomy

\* the key under which the file of a parent is looked up
StripPrefix(name) == IF Len(name) > 1 /\ name[1].num THEN Tail(name) ELSE name
\* (a single numeric token is kept: "123" -> replace("123 ", "") finds nothing to remove)
FileKey(levelIdx, name) == <<levelIdx, StripPrefix(name)>>
RootKey == <<1, <<>>>>

\* parents that need a file: the root and every parent with at least two children
NeedsFile(T, p) == p = Root \/ Cardinality(Children(T, p)) >= 2
LevelIdx(T, lev) == Pos(T, lev) + 1
KeyOf(T, NameOf(_, _), p) == IF p = Root THEN RootKey ELSE FileKey(LevelIdx(T, p[1]), NameOf(p[1], p[2]))

\* files : set of keys present in the directory; content : [key -> Seq of genes]
Missing(T, NameOf(_, _), files) == {p \in AllParentsOf(T) : NeedsFile(T, p) /\ KeyOf(T, NameOf, p) \notin files}
Lookup(T, NameOf(_, _), files, content) ==
    [p \in {q \in AllParentsOf(T) : NeedsFile(T, q)} |-> content[KeyOf(T, NameOf, p)]]

\* what must be observed: an error naming exactly the missing parents, or exactly the table
CsvErr(T, NameOf(_, _), files, content, ok, missing, table) ==
    LET m == Missing(T, NameOf, files) IN
    IF ~(ok = (m = {})) THEN 2501                          \* refused / accepted against the rule
    ELSE IF ~ok THEN (IF missing = m THEN 0 ELSE 2502)     \* the error names other parents
    ELSE IF ~(DOMAIN table = {q \in AllParentsOf(T) : NeedsFile(T, q)}) THEN 2503   \* entries for other parents
    ELSE IF ~(\A p \in DOMAIN table : table[p] = Lookup(T, NameOf, files, content)[p]) THEN 2504   \* genes, in file order
    ELSE 0
=============================================================================
