--------------------------- MODULE Transpose_Trace ---------------------------
(***************************************************************************)
(* Hook traces of transpose_sparse_matrix_on_disk on matrices large enough *)
(* to cross the enforced minimum chunk sizes, against Transpose.tla.       *)
(* One NDJSON line per call:                                               *)
(*  {"rows": [[minor,..] per major], "lo", "hi", "Ld", "El",               *)
(*   "events": [{"op":"block","r0","r1","d0","d1"}, {"op":"load","i0","i1"},*)
(*              ..., {"op":"end","indptr","indices","data"}]}              *)
(* Every "block" must be the Block action of the model (the smallest r1    *)
(* reaching El stored entries, or the last slice), every "load" its Load   *)
(* action (chunks of Ld entries tiling the input), and the arrays the code *)
(* wrote must equal the model's output.  A and B are constants of the run  *)
(* (the harness generates matrices of one shape per TLC invocation).       *)
(***************************************************************************)
EXTENDS Transpose, IOUtils

Traces == ndJsonDeserialize(IOEnv.TRACE_FILE)
NT == Len(Traces)
VARIABLES tid, l
tvars == <<tid, l, M, E, N, Ld, El, lo, hi, Ptr, pc, r0, r1, i0, nextIdx, outMaj, outDat>>
Rng(s) == {s[i] : i \in 1..Len(s)}
Ev == Traces[tid].events
MOf(t) == [a \in 1..A |-> {x + 1 : x \in Rng(t.rows[a])}]

TInit == /\ tid \in 1..NT /\ l = 1
         /\ M = MOf(Traces[tid]) /\ E = EntriesOf(MOf(Traces[tid])) /\ N = Len(EntriesOf(MOf(Traces[tid])))
         /\ Ld = Traces[tid].Ld /\ El = Traces[tid].El
         /\ lo = Traces[tid].lo /\ hi = Traces[tid].hi
         /\ Ptr = PtrOf(EntriesOf(MOf(Traces[tid])), Traces[tid].lo, Traces[tid].hi)
         /\ pc = "block" /\ r0 = 0 /\ r1 = 0 /\ i0 = 0
         /\ nextIdx = Ptr
         /\ outMaj = [k \in 1..Ptr[hi - lo] |-> 0] /\ outDat = [k \in 1..Ptr[hi - lo] |-> 0]

ASSUME \A i \in 1..(2 * NT) : TLCSet(i, 0)
Stop(c) == TLCSet(NT + tid, c) /\ FALSE
IsEvent(op) == l <= Len(Ev) /\ Ev[l].op = op /\ l' = l + 1 /\ UNCHANGED tid

\* a "block" event: the model chooses a block (pc goes to "load") with the same bounds
EvBlock == /\ IsEvent("block") /\ Block
           /\ IF pc' = "load" /\ r0 = Ev[l].r0 /\ r1' = Ev[l].r1
                 /\ Ptr[r0] = Ev[l].d0 /\ Ptr[r1'] = Ev[l].d1 THEN TRUE ELSE Stop(1301)
\* a "load" event: the next load chunk of the model
EvLoad == /\ IsEvent("load") /\ pc = "load" /\ i0 < N /\ Load
          /\ IF i0 = Ev[l].i0 /\ i0' = Ev[l].i1 THEN TRUE ELSE Stop(1302)
\* silent: end of a block's loads, and the final decision that no block is left
Silent == /\ UNCHANGED <<tid, l>>
          /\ \/ (pc = "load" /\ i0 >= N /\ Load)
             \/ (pc = "block" /\ {c \in (r0 + 1)..W : Ptr[c] - Ptr[r0] >= El \/ c = W} = {} /\ Block)
EvEnd == /\ IsEvent("end") /\ pc = "done"
         /\ IF /\ Ev[l].indptr = [v \in 1..(W + 1) |-> Ptr[v - 1]]
               /\ Ev[l].indices = outMaj
               /\ (Len(Ev[l].data) = 0 \/ Ev[l].data = outDat) THEN TRUE ELSE Stop(1303)
         /\ UNCHANGED vars

TNext == EvBlock \/ EvLoad \/ Silent \/ EvEnd
TSpec == TInit /\ [][TNext]_tvars
Bad == IF ~PtrMonotone THEN 1310 ELSE IF ~Correct THEN 1311 ELSE IF ~CursorInv THEN 1312 ELSE 0
Track == IF Bad = 0 THEN (IF TLCGet(tid) < l THEN TLCSet(tid, l) ELSE TRUE)
         ELSE TLCSet(NT + tid, Bad) /\ FALSE
Report == \A i \in 1..NT : PrintT(<<"VERDICT", i, TLCGet(i), Len(Traces[i].events) + 1, TLCGet(NT + i)>>)
=============================================================================
