------------------------- MODULE MarkerArray_Trace -------------------------
(***************************************************************************)
(* Real histories of MarkerGeneArray against MarkerArray.tla.              *)
(* One NDJSON line per history:                                            *)
(*  {"file": {"genes":[..], "pairs":[..], "up":[[g,p]..], "down":[[g,p]..]},*)
(*   "events": [{"op": "load"|"genes"|"pairs", "naive": bool, "arg": [..], *)
(*               "ok": bool, "kind": str,                                  *)
(*               "state": {"genes":[..], "pairs":[..], "upP":[[..]..],     *)
(*                         "dnP":.., "upG":.., "dnG":..},                  *)
(*               "clean": bool,      no index listed twice in a row        *)
(*               "lookup": bool,     idx_of_pair / n_pairs / n_genes agree *)
(*               "qg": [[i, [marker..], [up..]]..],   mask from gene idx   *)
(*               "qp": [[j, [marker..], [up..]]..],   mask from pair idx   *)
(*               "js": [..], "upc": [..], "dnc": [..]}]}   batch counts    *)
(* Indices are 1-based.  Clause numbers 27xx.                              *)
(***************************************************************************)
EXTENDS MarkerArray, TLC, Json, IOUtils
Traces == ndJsonDeserialize(IOEnv.TRACE_FILE)
N == Len(Traces)
VARIABLES tid, l, A
vars == <<tid, l, A>>
FileOf(j) == [genes |-> j.genes, pairs |-> j.pairs,
              up |-> {<<x[1], x[2]>> : x \in SRng(j.up)}, down |-> {<<x[1], x[2]>> : x \in SRng(j.down)}]
Rows(r) == [k \in 1..Len(r) |-> SRng(r[k])]
StateOf(s) == [genes |-> s.genes, pairs |-> s.pairs, upP |-> Rows(s.upP), dnP |-> Rows(s.dnP),
               upG |-> Rows(s.upG), dnG |-> Rows(s.dnG)]
None == [genes |-> <<>>, pairs |-> <<>>, upP |-> <<>>, dnP |-> <<>>, upG |-> <<>>, dnG |-> <<>>]

Expected(F, e) ==
    IF e.op = "load" THEN (IF e.naive THEN LoadNaive(F) ELSE LoadQuery(F, SRng(e.arg)))
    ELSE IF e.op = "genes" THEN DownGenes(A, e.arg)
    ELSE DownPairs(A, e.arg)
Outcome(F, e) ==
    IF e.op = "load" THEN (IF e.naive THEN "ok" ELSE LoadOutcome(F, SRng(e.arg)))
    ELSE IF e.op = "genes" THEN "ok"
    ELSE PairsOutcome(A, e.arg)

Err(F, e) ==
    LET o == Outcome(F, e) IN
    IF e.ok # (o = "ok") THEN 2701
    ELSE IF ~e.ok THEN (IF e.kind # o THEN 2701 ELSE 0)
    ELSE LET X == Expected(F, e)
             S == StateOf(e.state)
         IN  IF S.genes # X.genes \/ S.pairs # X.pairs THEN 2702
             ELSE IF S.upP # X.upP \/ S.dnP # X.dnP THEN 2703
             ELSE IF S.upG # X.upG \/ S.dnG # X.dnG THEN 2704
             ELSE IF ~e.clean THEN 2705
             ELSE IF ~e.lookup THEN 2707
             ELSE IF ~(\A k \in 1..Len(e.qg) :
                         LET m == MarkerMaskFromGene(X, e.qg[k][1]) IN
                         SRng(e.qg[k][2]) = m.marker /\ SRng(e.qg[k][3]) = m.up) THEN 2706
             ELSE IF ~(\A k \in 1..Len(e.qp) :
                         LET m == MarkerMaskFromPair(X, e.qp[k][1]) IN
                         SRng(e.qp[k][2]) = m.marker /\ SRng(e.qp[k][3]) = m.up) THEN 2706
             ELSE IF ~(Len(e.upc) = Len(X.genes) /\ Len(e.dnc) = Len(X.genes)
                       /\ \A i \in 1..Len(X.genes) : e.upc[i] = UpCount(X, e.js, i)
                                                      /\ e.dnc[i] = DownCount(X, e.js, i)) THEN 2708
             ELSE 0

ASSUME \A i \in 1..(2 * N) : TLCSet(i, 0)
Init == tid \in 1..N /\ l = 1 /\ A = None
Step == /\ l <= Len(Traces[tid].events)
        /\ LET F == FileOf(Traces[tid].file)
               e == Traces[tid].events[l]
               c == Err(F, e) IN
           IF c = 0
           THEN /\ l' = l + 1 /\ UNCHANGED tid
                /\ A' = IF e.ok THEN Expected(F, e) ELSE A
           ELSE TLCSet(N + tid, c) /\ FALSE
Spec == Init /\ [][Step]_vars
Track == IF TLCGet(tid) < l THEN TLCSet(tid, l) ELSE TRUE
Report == \A i \in 1..N : PrintT(<<"VERDICT", i, TLCGet(i), Len(Traces[i].events) + 1, TLCGet(N + i)>>)
=============================================================================
