----------------------------- MODULE MarkerTable -----------------------------
(***************************************************************************)
(* Reconciliation of a marker table with the query genes                   *)
(* (type_assignment/marker_cache_v2.py: validate_marker_lookup,            *)
(* create_marker_cache_from_specified_markers, write_query_markers_to_h5,  *)
(* serialize_markers), written from the statement of C08.                  *)
(*                                                                         *)
(* table : function from parent keys (<<level, node>>, Root = <<0,0>>) to  *)
(*         sets of gene ids; a parent that is not listed is not in DOMAIN. *)
(* QG, RG: gene ids present in the query / reference.                      *)
(***************************************************************************)
EXTENDS Taxonomy

Own(table, p) == IF p \in DOMAIN table THEN table[p] ELSE {}

\* strict ancestors of parent p = <<lev, node>>, nearest first, as parent keys
AncestorsNearestFirst(R, p) ==
    LET i == Pos(R, p[1]) IN
    [k \in 1..(i - 1) |-> <<R.hier[i - k], AncestorAt(R, p[1], p[2], R.hier[i - k])>>]

RECURSIVE PatchFrom(_, _, _, _, _, _)
PatchFrom(acc, ancs, i, table, QG, minm) ==
    IF Cardinality(acc \cap QG) >= minm \/ i > Len(ancs) THEN acc
    ELSE PatchFrom(acc \cup Own(table, ancs[i]), ancs, i + 1, table, QG, minm)

\* genes used at parent p of the run tree R
GenesAt(R, table, QG, minm, p) ==
    IF p = Root THEN Own(table, Root) \cap QG
    ELSE LET a1 == PatchFrom(Own(table, p), AncestorsNearestFirst(R, p), 1, table, QG, minm)
             a2 == IF Cardinality(a1 \cap QG) >= minm THEN a1 ELSE a1 \cup Own(table, Root)
         IN a2 \cap QG

\* parents where a choice exists
ChoiceParents(R) == {p \in AllParentsOf(R) : Cardinality(Children(R, p)) > 1}

Reconcile(R, table, QG, minm) == [p \in ChoiceParents(R) |-> GenesAt(R, table, QG, minm, p)]

(***************************************************************************)
(* The three error conditions of the statement.  The run must end with an  *)
(* error when the set is non-empty and must not when it is empty (and the  *)
(* root has at least one usable gene: C01).                                *)
(***************************************************************************)
ConsultedKeys(R, table) == DOMAIN table \cap ChoiceParents(R)

RunErrors(R, table, QG, RG, minm) ==
    (IF Root \in ChoiceParents(R) /\ Own(table, Root) \cap QG = {} THEN {"root_unusable"} ELSE {})
    \* with a minimum of 0 nothing is "fewer than the minimum": a non-root parent may then be left without
    \* genes (the statement asks for an error only at the root)
    \cup (IF minm >= 1 /\ \E p \in ChoiceParents(R) : GenesAt(R, table, QG, minm, p) = {}
          THEN {"no_usable_markers"} ELSE {})
    \cup (IF (UNION {table[p] : p \in DOMAIN table}) \cap QG = {} THEN {"no_overlap"} ELSE {})
    \* the statement is unconditional: any listed marker the reference does not know
    \cup (IF \E p \in DOMAIN table : ~(table[p] \subseteq RG) THEN {"unknown_to_reference"} ELSE {})

\* A root that is not a choice (single top-level node) with an unusable list: the statement both
\* says "parents with a single child need no markers" and "a root without usable markers ends
\* the run with an error"; either outcome is accepted there.
MayFail(R, table, QG) == Root \notin ChoiceParents(R) /\ Own(table, Root) \cap QG = {}

\* with a minimum of 0 a consulted non-root parent whose list misses the query is not topped up; the code refuses
\* such a table ("No markers at parent node ... were present in query set"), the statement does not say: either
MayFail0(R, table, QG, minm) == minm = 0 /\ \E p \in ChoiceParents(R) : GenesAt(R, table, QG, minm, p) = {}

\* flattening: every list is merged into the root's
FlattenTable(table) == [p \in {Root} |-> UNION {table[q] : q \in DOMAIN table}]
=============================================================================
