---------------------------- MODULE Runners_MC ----------------------------
(***************************************************************************)
(* (a) every list of <= MaxIn statistics files over NP path texts and NR   *)
(*     extension chains: the naming invariants; scenario emission with     *)
(*     every set of pre-existing targets.                                  *)
(* (b) the on-the-fly run as a state machine with a failure possible at    *)
(*     every step: the private scratch directory never survives, outputs   *)
(*     exist exactly after a complete run, the recorded configuration is   *)
(*     the on-the-fly one.                                                 *)
(***************************************************************************)
EXTENDS Runners, SequencesExt, Json

CONSTANTS NP, NR, MaxIn

Inputs == {[path |-> p, rest |-> r] : p \in 1..NP, r \in 1..NR}
\* a path text has one extension chain: lists in which a path occurs with two different chains do not exist
Coherent(s) == \A i, j \in 1..Len(s) : s[i].path = s[j].path => s[i].rest = s[j].rest
Lists == {s \in BoundedSeq(Inputs, MaxIn) : Coherent(s)}

ASSUME \A s \in Lists : Injective(s) /\ KeepsRest(s) /\ SaltMonotone(s) /\ FirstUnsalted(s) /\ AllDistinct(s)

VARIABLES pc, scratch, outputs, config, failed
vars == <<pc, scratch, outputs, config, failed>>

Init == pc = 1 /\ scratch = {} /\ outputs = {} /\ config = "none" /\ failed = FALSE

\* what each step leaves in the scratch directory / at the output locations when it succeeds
Do(step) ==
    CASE step = "mktmp"      -> scratch' = {"otf"} /\ UNCHANGED <<outputs, config>>
      [] step = "refdir"     -> scratch' = scratch \cup {"otf/ref"} /\ UNCHANGED <<outputs, config>>
      [] step = "refmarkers" -> scratch' = scratch \cup {"otf/ref/reference_markers"} /\ UNCHANGED <<outputs, config>>
      [] step = "qmarkers"   -> scratch' = scratch \cup {"otf/query_markers"} /\ UNCHANGED <<outputs, config>>
      [] step = "mapping"    -> outputs' = {"json", "csv"} /\ config' = "mapping" /\ UNCHANGED scratch
      [] step = "patch"      -> config' = "otf" /\ UNCHANGED <<scratch, outputs>>
      [] step = "cleanup"    -> scratch' = {} /\ UNCHANGED <<outputs, config>>

Ok   == /\ pc <= Len(Steps) /\ Do(Steps[pc]) /\ pc' = pc + 1 /\ UNCHANGED failed
\* a failing step (never the clean-up itself) jumps to the clean-up
Fail == /\ pc < Len(Steps) /\ ~failed /\ failed' = TRUE /\ pc' = Len(Steps)
        /\ UNCHANGED <<scratch, outputs, config>>
Next == Ok \/ Fail
Spec == Init /\ [][Next]_vars

Done == pc = Len(Steps) + 1
InvScratchGone   == Done => scratch = {}
InvOutputsIffRun == (Done /\ ~failed) => (outputs = {"json", "csv"} /\ config = "otf")
\* the mapping stage's own configuration is visible only between "mapping" and "patch"
InvNoStaleConfig == (Done /\ config = "mapping") => failed
InvPrivate       == \A e \in scratch : e = "otf" \/ SubSeq(e, 1, 4) = "otf/"

----------------------------------------------------------------------------
\* scenario emission for (a)
NameJson(n) == [salt |-> n[1], rest |-> n[2]]
Targets(s) == {OutMap(s)[p] : p \in DOMAIN OutMap(s)}
ExistingSets(s) == LET T == Targets(s) \cup {<<NoSalt, NR + 1>>} IN
                   UNION {[E -> {"file", "dir"}] : E \in {E \in SUBSET T : Cardinality(E) <= 2}}
EmitNames(dummy) ==
    \A s \in Lists : Len(s) = 0 \/
        PrintT(<<"SCN", ToJson([inputs |-> s, names |-> [i \in 1..Len(s) |-> NameJson(Names(s)[i])],
                                 map |-> {[path |-> p, name |-> NameJson(OutMap(s)[p])] : p \in DOMAIN OutMap(s)}])>>)
=============================================================================
