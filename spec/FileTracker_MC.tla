---------------------------- MODULE FileTracker_MC ----------------------------
EXTENDS FileTracker, TLC, Json
VARIABLES hist, kind0
Op(o) == hist' = Append(hist, o) /\ UNCHANGED kind0
MCInit == Init /\ hist = <<>> /\ kind0 = kind
MCNext == \/ \E p \in Paths, io \in BOOLEAN : Add(p, io) /\ Op([op |-> "add", p |-> p, io |-> io, v |-> 0])
          \/ \E p \in Paths, v \in {7, 8} : Write(p, v) /\ Op([op |-> "write", p |-> p, io |-> FALSE, v |-> v])
          \/ Release /\ Op([op |-> "release", p |-> "", io |-> FALSE, v |-> 0])
MCSpec == MCInit /\ [][MCNext]_<<vars, hist, kind0>>
\* every released history is one scenario: initial kinds, operations, final file system
Emit == IF ~alive THEN PrintT(<<"SCN", ToJson([use |-> UseTmp, ops |-> hist, init |-> kind0,
                                               kind |-> kind, data |-> data])>>) ELSE TRUE
=============================================================================
