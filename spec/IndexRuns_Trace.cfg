SPECIFICATION TSpec
CONSTRAINT Track
POSTCONDITION Report
CHECK_DEADLOCK FALSE
