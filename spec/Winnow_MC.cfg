SPECIFICATION MCSpec
CONSTANTS Codes <- CodeSet MaxN = 4
INVARIANT InvNeverSilent
INVARIANT InvNoOrphans
INVARIANT InvSurvivorsKept
INVARIANT InvQuiet
CHECK_DEADLOCK FALSE
