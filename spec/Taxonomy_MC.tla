--------------------------- MODULE Taxonomy_MC ---------------------------
(***************************************************************************)
(* Design check and scenario source for C10.                               *)
(* Phase "build": every reachable state holds one tree shape; shapes are   *)
(* generated level by level, each new (finer) level being attached by a    *)
(* monotone surjection child -> parent, which enumerates every strict tree *)
(* with at most MaxLevels levels and MaxLeaves leaves exactly once up to   *)
(* renaming.  Phase "ops": the transformations of TaxonomyTree             *)
(* (drop_level, flatten, to_str/from_str with and without cells) are       *)
(* applied in every order; the C10 invariants relate the current tree T    *)
(* to the tree T0 that was built.                                          *)
(***************************************************************************)
EXTENDS Taxonomy, TLC, Json

CONSTANTS MaxLevels, MaxLeaves

VARIABLES T0, T, phase, hist
vars == <<T0, T, phase, hist>>

Mono(f, n)    == \A i \in 1..(n - 1) : f[i] <= f[i + 1]
Surj(f, n, m) == \A p \in 1..m : \E i \in 1..n : f[i] = p

LeafCells(m) == [j \in 1..m |-> {2 * j - 1, 2 * j}]

Flat(n) == [hier |-> <<1>>, keys |-> {1}, nodes |-> [l \in {1} |-> 1..n],
            kids |-> [l \in {1} |-> [j \in 1..n |-> {}]], cells |-> LeafCells(n)]

\* attach a new leaf level of m nodes below the current leaf level through f
Extend(S, m, f) ==
    LET L  == Len(S.hier)
        nl == L + 1
        old == S.hier[L]
    IN [hier  |-> Append(S.hier, nl), keys |-> S.keys \cup {nl},
        nodes |-> [l \in S.keys \cup {nl} |-> IF l = nl THEN 1..m ELSE S.nodes[l]],
        kids  |-> [l \in S.keys \cup {nl} |->
                     IF l = nl THEN [j \in 1..m |-> {}]
                     ELSE IF l = old THEN [p \in S.nodes[old] |-> {j \in 1..m : f[j] = p}]
                     ELSE S.kids[l]],
        cells |-> LeafCells(m)]

Init == /\ \E n \in 1..MaxLeaves : T0 = Flat(n)
        /\ T = T0 /\ phase = "build" /\ hist = <<>>

Grow == /\ phase = "build" /\ Len(T0.hier) < MaxLevels
        /\ LET n == Cardinality(AllLeaves(T0)) IN
           \E m \in n..MaxLeaves : \E f \in [1..m -> 1..n] :
              /\ Mono(f, m) /\ Surj(f, m, n)
              /\ T0' = Extend(T0, m, f)
        /\ T' = T0' /\ UNCHANGED <<phase, hist>>

Drop(lev) == /\ CanDrop(T, lev)
             /\ T' = DropLevel(T, lev) /\ phase' = "ops"
             /\ hist' = Append(hist, <<"drop", lev>>) /\ UNCHANGED T0

DoFlatten == /\ Len(T.hier) > 1
             /\ T' = Flatten(T) /\ phase' = "ops"
             /\ hist' = Append(hist, <<"flatten", 0>>) /\ UNCHANGED T0

Next == Grow \/ (\E lev \in Levels(T) : Drop(lev)) \/ DoFlatten

Spec == Init /\ [][Next]_vars

----------------------------------------------------------------------------
\* C10 invariants
InvAccepted    == Accepts(T)
InvSameLeaves  == SameLeaves(T0, T)
InvAncestors   == AncestorsPreserved(T0, T)
InvPartition   == Partition(T)
InvInverse     == ParentChildInverse(T)
InvLeafPairs   == LeafPairsRight(T)
\* a leaf pair is listed under exactly one parent: the deepest common ancestor's
InvPairsOnce   == \A a, b \in AllLeaves(T) : a # b =>
                     Cardinality({par \in AllParentsOf(T) : {a, b} \in LeafPairs(T, par)}) = 1
\* dropping a level never creates or removes a parent-child path
InvDropOrderIrrelevant ==
    \A l1, l2 \in Levels(T) : (l1 # l2 /\ CanDrop(T, l1) /\ CanDrop(T, l2)) =>
        DropLevel(DropLevel(T, l1), l2) = DropLevel(DropLevel(T, l2), l1)
InvFlattenIsDropAll ==
    Len(T.hier) > 1 => Flatten(T).nodes = [l \in {LeafLevel(T)} |-> AllLeaves(T)]

----------------------------------------------------------------------------
\* one-edit malformed variants of the built tree; each is a tree value + whether the
\* three conditions still hold
RemoveLink(S, l, p, c) == [S EXCEPT !.kids[l][p] = @ \ {c}]
AddLink(S, l, p, c)    == [S EXCEPT !.kids[l][p] = @ \cup {c}]
RemoveNode(S, l, n) ==
    [S EXCEPT !.nodes[l] = @ \ {n},
              !.kids[l] = [x \in (DOMAIN @) \ {n} |-> @[x]],
              !.cells = IF l = LeafLevel(S) THEN [x \in (DOMAIN @) \ {n} |-> @[x]] ELSE @]
CellTwice(S, a, b) == [S EXCEPT !.cells[b] = @ \cup {CHOOSE x \in S.cells[a] : TRUE}]
EmptyLeaf(S, c) == [S EXCEPT !.cells[c] = {}]
DropHierEntry(S, i) == [S EXCEPT !.hier = DelAt(@, i)]
DropKey(S, l) == [S EXCEPT !.keys = @ \ {l}]

Missing == 99

Variants(S) ==
    LET NL == NonLeafLevels(S) IN
      UNION {{[edit |-> <<"remove_link", l, p, c>>, tree |-> RemoveLink(S, l, p, c)]
                 : c \in S.kids[l][p]} : <<l, p>> \in UNION {{<<l, p>> : p \in S.nodes[l]} : l \in NL}}
      \cup
      UNION {{[edit |-> <<"add_link", l, p, c>>, tree |-> AddLink(S, l, p, c)]
                 : c \in S.nodes[ChildLevel(S, l)] \ S.kids[l][p]}
                 : <<l, p>> \in UNION {{<<l, p>> : p \in S.nodes[l]} : l \in NL}}
      \cup
      UNION {{[edit |-> <<"link_missing", l, p, Missing>>, tree |-> AddLink(S, l, p, Missing)]
                 : p \in S.nodes[l]} : l \in NL}
      \cup
      UNION {{[edit |-> <<"remove_node", l, n, 0>>, tree |-> RemoveNode(S, l, n)]
                 : n \in S.nodes[l]} : l \in Levels(S)}
      \cup
      {[edit |-> <<"cell_twice", LeafLevel(S), ab[1], ab[2]>>, tree |-> CellTwice(S, ab[1], ab[2])]
                 : ab \in {x \in AllLeaves(S) \X AllLeaves(S) : x[1] # x[2]}}
      \cup   \* two edits: one leaf loses its cells (legal by itself), a cell of another leaf is listed twice
      {[edit |-> <<"empty_then_twice", abc[1], abc[2], abc[3]>>, tree |-> CellTwice(EmptyLeaf(S, abc[3]), abc[1], abc[2])]
                 : abc \in {x \in AllLeaves(S) \X AllLeaves(S) \X AllLeaves(S) :
                                x[1] # x[2] /\ x[1] # x[3] /\ x[2] # x[3]}}
      \cup
      {[edit |-> <<"drop_hier_entry", i, 0, 0>>, tree |-> DropHierEntry(S, i)] : i \in 1..Len(S.hier)}
      \cup
      {[edit |-> <<"drop_key", l, 0, 0>>, tree |-> DropKey(S, l)] : l \in Levels(S)}

\* DropHierEntry can leave an empty hierarchy, on which LeafLevel is undefined
SafeAccepts(S) == IF Len(S.hier) = 0 THEN FALSE
                  ELSE IF ~KeysOk(S) THEN FALSE ELSE Accepts(S)

\* every edit that breaks one of the three conditions is rejected by Accepts, and the
\* few that do not (removing a whole top-level subtree's root when ... ) are classified
InvVariantsClassified ==
    phase = "build" =>
      \A v \in Variants(T0) :
         LET e == v.edit[1] IN
            \/ e \in {"remove_link", "add_link", "link_missing", "cell_twice", "empty_then_twice",
                      "drop_hier_entry", "drop_key"} /\ ~SafeAccepts(v.tree)
            \/ e = "remove_node"

----------------------------------------------------------------------------
\* scenario emission (Taxonomy_Gen.cfg): one JSON record per built shape
SortedSeq(S) == SetToSortSeq(S, <)
TreeJson(S) ==
    [hier |-> S.hier, keys |-> SortedSeq(S.keys),
     nodes |-> [i \in 1..Len(S.hier) |-> IF S.hier[i] \in S.keys THEN SortedSeq(S.nodes[S.hier[i]]) ELSE <<>>],
     kids |-> [i \in 1..Len(S.hier) |->
                 IF S.hier[i] \in S.keys
                 THEN LET ns == SortedSeq(DOMAIN S.kids[S.hier[i]]) IN
                      [j \in 1..Len(ns) |-> <<ns[j], SortedSeq(S.kids[S.hier[i]][ns[j]])>>]
                 ELSE <<>>],
     cells |-> LET ls == SortedSeq(DOMAIN S.cells) IN
               [j \in 1..Len(ls) |-> <<ls[j], SortedSeq(S.cells[ls[j]])>>]]

\* a variant is emitted as its edit (the harness applies the same edit to the dict it
\* built) together with the verdict of Accepts on the edited tree
VariantJson(v) == [edit |-> v.edit, accepts |-> SafeAccepts(v.tree)]

PairSeq(P) == {<<Min(p), Max(p)>> : p \in P}

Expect(S) ==
    [tree |-> TreeJson(S),
     leaves |-> [i \in 1..Len(S.hier) |->
                   LET ns == SortedSeq(S.nodes[S.hier[i]]) IN
                   [j \in 1..Len(ns) |-> <<ns[j], SortedSeq(LeavesUnder(S, S.hier[i], ns[j]))>>]],
     parents |-> [i \in 1..Len(S.hier) |->
                   LET ns == SortedSeq(S.nodes[S.hier[i]]) IN
                   [j \in 1..Len(ns) |-> <<ns[j],
                        [k \in 1..(i - 1) |-> AncestorAt(S, S.hier[i], ns[j], S.hier[k])]>>]],
     pairs |-> {[parent |-> par, pairs |-> PairSeq(LeafPairs(S, par))] : par \in AllParentsOf(S)},
     drops |-> LET ds == SortedSeq({l \in Levels(S) : CanDrop(S, l)}) IN
               [j \in 1..Len(ds) |-> <<ds[j], TreeJson(DropLevel(S, ds[j]))>>],
     flat |-> TreeJson(Flatten(S)),
     stripped |-> TreeJson(StripCells(S)),
     variants |-> {VariantJson(v) : v \in Variants(S)}]

\* emission is an action so that it is evaluated once per distinct shape
EmitAct == /\ phase = "build" /\ PrintT(<<"SCN", ToJson(Expect(T0))>>)
           /\ phase' = "emitted" /\ UNCHANGED <<T0, T, hist>>
GenNext == Grow \/ EmitAct
GenSpec == Init /\ [][GenNext]_vars
=============================================================================
