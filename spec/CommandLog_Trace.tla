--------------------------- MODULE CommandLog_Trace ---------------------------
(***************************************************************************)
(* Histories replayed into the real CommandLog.  One NDJSON line per       *)
(* history: {"events": [{"op","m","cs","outcome","mem":[{t,m}],            *)
(*   "file":[{t,m}],"printed":n,"warned":n}]}.  Clause numbers 36xx.       *)
(***************************************************************************)
EXTENDS CommandLog, TLC, Json, IOUtils
Traces == ndJsonDeserialize(IOEnv.TRACE_FILE)
N == Len(Traces)
VARIABLES tid, l
tvars == <<vars, tid, l>>
Stop(code) == TLCSet(N + tid, code) /\ FALSE
TInit == tid \in 1..N /\ l = 1 /\ Init
Same(a, b) == Len(a) = Len(b) /\ \A i \in 1..Len(a) : a[i].t = b[i].t /\ a[i].m = b[i].m
Matches(e) ==
    IF ~(last' = e.outcome) THEN 3601                 \* raised / returned
    ELSE IF ~Same(mem', e.mem) THEN 3602              \* lines held in memory (tags, messages, order)
    ELSE IF ~Same(file', e.file) THEN 3603            \* lines of the log file
    ELSE IF ~(printed' = e.printed) THEN 3604         \* what was printed
    ELSE IF ~(warned' = e.warned) THEN 3605           \* warnings issued
    ELSE 0
Step == /\ l <= Len(Traces[tid].events)
        /\ LET e == Traces[tid].events[l] IN
           /\ \/ e.op = "add_msg" /\ AddMsg(e.m)
              \/ e.op = "info" /\ Info(e.m)
              \/ e.op = "env" /\ Env(e.m)
              \/ e.op = "benchmark" /\ Benchmark(e.m)
              \/ e.op = "warn" /\ Warn(e.m)
              \/ e.op = "error" /\ Error(e.m)
              \/ e.op = "write" /\ Write(e.cs)
           /\ LET c == Matches(e) IN IF c = 0 THEN TRUE ELSE Stop(c)
        /\ l' = l + 1 /\ UNCHANGED tid
TSpec == TInit /\ [][Step]_tvars
ASSUME \A i \in 1..(2 * N) : TLCSet(i, 0)
Track == IF TLCGet(tid) < l THEN TLCSet(tid, l) ELSE TRUE
Report == \A i \in 1..N : PrintT(<<"VERDICT", i, TLCGet(i), Len(Traces[i].events) + 1, TLCGet(N + i)>>)
=============================================================================
