--------------------------- MODULE Truncate_MC ---------------------------
(***************************************************************************)
(* Histories of truncation requests on a statistics file, over every tree  *)
(* shape of Taxonomy_MC.  The file starts as (T0, statistics computed from *)
(* the cells of T0); every request - any sequence of level names, known or *)
(* not, in any order, with repetitions - is either refused, leaving the    *)
(* file as it was, or replaces it by the truncated file.                   *)
(* After ANY history the file is what a single computation from the cells  *)
(* under the coarser labels would have produced.                           *)
(***************************************************************************)
EXTENDS Taxonomy_MC, Truncate

CONSTANT MaxReq

VARIABLES f, log
tvars == <<T0, T, phase, hist, f, log>>

Weight(S, n) == FoldSet(LAMBDA c, acc : acc + c, 0, S.cells[n])
\* two additive statistics of a leaf: how many cells, and the sum of a per-cell quantity (the cell number itself)
StatOf(S) == [n \in AllLeaves(S) |-> <<Cardinality(S.cells[n]), Weight(S, n)>>]

Requests(S) == BoundedSeq(Levels(S) \cup {Unknown}, Len(S.hier) + 1)

TInit == Init /\ f = <<>> /\ log = <<0, "none">>
TGrow == Grow /\ UNCHANGED <<f, log>>
Open  == /\ phase = "build" /\ phase' = "file" /\ f' = StatOf(T0)
         /\ UNCHANGED <<T0, T, hist, log>>
Req(H) == /\ phase = "file" /\ log[1] < MaxReq
          /\ LET o == Outcome(T, H) IN
             /\ log' = <<log[1] + 1, o>>          \* how many requests so far, outcome of the last one
             /\ IF o = "ok" THEN T' = NewTree(T, H) /\ f' = NewStats(T, H, f)
                            ELSE UNCHANGED <<T, f>>
          /\ UNCHANGED <<T0, phase, hist>>
TNext == TGrow \/ Open \/ \E H \in Requests(T) : Req(H)
TSpec == TInit /\ [][TNext]_tvars

InFile == phase = "file"
\* the step-by-step result is the direct one, whatever the history
InvDirect      == InFile => T = Direct(T0, Levels(T))
\* the statistics are those of the cells under the coarser labels
InvHomomorphic == InFile => f = StatOf(T)
InvTotal       == InFile => \A k \in 1..2 : SumOver(f, AllLeaves(T), k) = SumOver(StatOf(T0), AllLeaves(T0), k)
InvAcceptedT   == InFile => Accepts(T)
NonDecreasing(S, H) == \A i \in 1..(Len(H) - 1) : Pos(S, H[i]) <= Pos(S, H[i + 1])
InvOkIff == InFile => \A H \in Requests(T) :
               (Outcome(T, H) = "ok") <=>
                   (H # <<>> /\ Kept(H) \subseteq Levels(T) /\ Kept(H) # Levels(T) /\ NonDecreasing(T, H))
\* a request only ever removes levels; a request that keeps the leaf level keeps every number
ActCoarsens == [][(InFile /\ phase' = "file") =>
                     /\ Levels(T') \subseteq Levels(T)
                     /\ (LeafLevel(T') = LeafLevel(T) => f' = f)
                     /\ (log' # log /\ log'[2] # "ok" => T' = T /\ f' = f)]_tvars
\* one request keeping K2 after one keeping K1 (K2 within K1) = one request keeping K2
InvTwoStep == InFile /\ log[1] = 0 =>
    \A H1 \in Requests(T) : Outcome(T, H1) = "ok" =>
       \A H2 \in Requests(NewTree(T, H1)) : Outcome(NewTree(T, H1), H2) = "ok" =>
          /\ NewTree(NewTree(T, H1), H2) = Direct(T, Kept(H2))
          /\ NewStats(NewTree(T, H1), H2, NewStats(T, H1, f)) = StatOf(Direct(T, Kept(H2)))

----------------------------------------------------------------------------
\* scenario emission: per tree shape every request with the decision and the tree to be written
ReqJson(S, H) == [H |-> H, outcome |-> Outcome(S, H),
                  tree |-> IF Outcome(S, H) = "ok" THEN TreeJson(NewTree(S, H)) ELSE TreeJson(S)]
TEmit == /\ phase = "build"
         /\ PrintT(<<"SCN", ToJson([tree |-> TreeJson(T0), reqs |-> {ReqJson(T0, H) : H \in Requests(T0)}])>>)
         /\ phase' = "emitted" /\ UNCHANGED <<T0, T, hist, f, log>>
TGenSpec == TInit /\ [][TGrow \/ TEmit]_tvars
=============================================================================
