---------------------------- MODULE Guards_Trace ----------------------------
(* one NDJSON line per constructed runner: {"c": {...}, "ok": b, "reason": str}; clause numbers 30xx *)
EXTENDS Guards, TLC, Json, IOUtils, Sequences, Integers
Traces == ndJsonDeserialize(IOEnv.TRACE_FILE)
N == Len(Traces)
VARIABLES tid, l
vars == <<tid, l>>
SRng(s) == {s[i] : i \in 1..Len(s)}
Err(t) ==
    LET c == [factor |-> t.c.factor, lookup |-> t.c.lookup, norm |-> t.c.norm, dst |-> SRng(t.c.dst),
              taken |-> t.c.taken, clobber |-> t.c.clobber] IN
    IF t.ok # Accepted(c) THEN 3001                        \* accepted / refused against the table
    ELSE IF ~t.ok /\ t.reason \notin Reasons(c) THEN 3002   \* refused for a reason the table does not give
    ELSE 0
ASSUME \A i \in 1..(2 * N) : TLCSet(i, 0)
Init == tid \in 1..N /\ l = 1
Step == /\ l = 1
        /\ LET c == Err(Traces[tid]) IN
           IF c = 0 THEN l' = 2 /\ UNCHANGED tid ELSE TLCSet(N + tid, c) /\ FALSE
Spec == Init /\ [][Step]_vars
Track == IF TLCGet(tid) < l THEN TLCSet(tid, l) ELSE TRUE
Report == \A i \in 1..N : PrintT(<<"VERDICT", i, TLCGet(i), 2, TLCGet(N + i)>>)
=============================================================================
