---------------------------- MODULE ScratchFS_Trace ----------------------------
(***************************************************************************)
(* Syscall traces (strace -f) of real stage runs against ScratchFS.tla.    *)
(* One NDJSON line per history:                                            *)
(*  {"stale": [names planted in scratch before], "mayWriteInput": bool,    *)
(*   "events": [{"run","op","cls","top","isTop"}, ...]}                    *)
(* A history may contain several runs (sequential or concurrent; events    *)
(* are in the order strace reported them).  Names are strings.             *)
(***************************************************************************)
EXTENDS ScratchFS, Sequences, Json, IOUtils

Traces == ndJsonDeserialize(IOEnv.TRACE_FILE)
N == Len(Traces)
VARIABLES tid, l
vars == <<tid, l, owner, written, ended>>
Rng(s) == {s[i] : i \in 1..Len(s)}
Ev == Traces[tid].events

Init == /\ tid \in 1..N /\ l = 1 /\ FSInit(Rng(Traces[tid].stale))

ASSUME \A i \in 1..(2 * N) : TLCSet(i, 0)
Next == /\ l <= Len(Ev) /\ l' = l + 1 /\ UNCHANGED tid
        /\ LET e == Ev[l] c == EventErr(e, Traces[tid].mayWriteInput) IN
           IF c = 0 THEN Apply(e) ELSE TLCSet(N + tid, c) /\ FALSE
Spec == Init /\ [][Next]_vars
Track == IF EndedOwnNothing THEN (IF TLCGet(tid) < l THEN TLCSet(tid, l) ELSE TRUE)
         ELSE TLCSet(N + tid, 1911) /\ FALSE
Report == \A i \in 1..N : PrintT(<<"VERDICT", i, TLCGet(i), Len(Traces[i].events) + 1, TLCGet(N + i)>>)
=============================================================================
