SPECIFICATION Spec
CONSTRAINT Track
POSTCONDITION Report
CHECK_DEADLOCK FALSE
