------------------------------ MODULE IndexRuns ------------------------------
(***************************************************************************)
(* Turning a list of row numbers into slices (utils/utils.py:              *)
(* merge_index_list), used when rows of a sparse matrix are loaded in      *)
(* bulk (utils/sparse_utils.py).  Extension suite X19; the row access      *)
(* built on it is RowAccess (C05).                                         *)
(*                                                                         *)
(* For a non-empty list (any order, repeats allowed) the answer is the     *)
(* ascending sequence of the maximal runs of its set of values, each as    *)
(* <<first, last + 1>>.  The empty list is outside the function's domain   *)
(* (the code fails on it with an IndexError; no caller passes one).        *)
(***************************************************************************)
EXTENDS Integers, Sequences, FiniteSets

SetOf(s) == {s[i] : i \in 1..Len(s)}
Runs(S) == {<<a, b + 1>> : <<a, b>> \in {r \in S \X S : /\ r[1] <= r[2]
                                                        /\ \A x \in r[1]..r[2] : x \in S
                                                        /\ (r[1] - 1) \notin S /\ (r[2] + 1) \notin S}}
Covered(R) == UNION {r[1]..(r[2] - 1) : r \in R}
\* ------------------------------------------------------------------ properties (over every set)
Exact(S) == Covered(Runs(S)) = S                                    \* every asked row, no other row
Maximal(S) == \A r1, r2 \in Runs(S) : r1 # r2 => (r1[2] < r2[1] \/ r2[2] < r1[1])   \* slices neither touch nor overlap
NonEmptySlices(S) == \A r \in Runs(S) : r[1] < r[2]
=============================================================================
