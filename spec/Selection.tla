------------------------------ MODULE Selection ------------------------------
(***************************************************************************)
(* Greedy selection of query marker genes for one parent node              *)
(* (marker_selection/selection.py: _run_selection, _update_been_filled,    *)
(* _get_newly_full_mask, _get_maxed_out, _choose_desperate_markers,        *)
(* _choose_one_gene; marker_selection/utils.py: create_utility_array).     *)
(*                                                                         *)
(* Pairs : the leaf pairs the parent must discriminate                     *)
(* Genes : the genes of the reference marker table that occur in the query *)
(* table[p][g] \in {0, 1, 2}: g is no marker / an up marker / a down       *)
(*                            marker of pair p                             *)
(* Nper  : the per-direction target (n_per_utility)                        *)
(* State : chosen (set of genes), filled (set of <<pair, dir>> slots)      *)
(***************************************************************************)
EXTENDS Integers, FiniteSets, FiniteSetsExt, TLC

Dirs == {1, 2}
Census(table, Genes, p, d) == Cardinality({g \in Genes : table[p][g] = d})
Total(table, Genes, p) == Census(table, Genes, p, 1) + Census(table, Genes, p, 2)
Count(table, chosen, p, d) == Cardinality({g \in chosen : table[p][g] = d})
Agg(table, chosen, p) == Count(table, chosen, p, 1) + Count(table, chosen, p, 2)
\* both directions could reach the target
Possible(table, Genes, Nper, p) == Census(table, Genes, p, 1) >= Nper /\ Census(table, Genes, p, 2) >= Nper

\* utility of a gene: number of unfilled slots it marks (a chosen gene has utility -1)
Util(table, Pairs, chosen, filled, g) ==
    IF g \in chosen THEN -1
    ELSE Cardinality({s \in Pairs \X Dirs : table[s[1]][g] = s[2] /\ s \notin filled})
MaxUtil(table, Pairs, Genes, chosen, filled) ==
    IF Genes = {} THEN 0 ELSE Max({Util(table, Pairs, chosen, filled, g) : g \in Genes})

\* a slot is filled when it reached the target (if both directions could), when every marker of
\* the slot is taken, or when the pair holds twice the target; filled slots stay filled
NewFilled(table, Pairs, Genes, Nper, chosen, filled) ==
    filled \cup {s \in Pairs \X Dirs :
                   \/ (Count(table, chosen, s[1], s[2]) >= Nper /\ Possible(table, Genes, Nper, s[1]))
                   \/ Count(table, chosen, s[1], s[2]) = Census(table, Genes, s[1], s[2])
                   \/ Agg(table, chosen, s[1]) >= 2 * Nper}

\* pairs with at most the target number of markers: all of them are taken up front
DesperatePairs(table, Pairs, Genes, Nper) ==
    {p \in Pairs : Total(table, Genes, p) > 0 /\ Total(table, Genes, p) <= Nper}
DesperateGenes(table, Pairs, Genes, Nper) ==
    {g \in Genes : \E p \in DesperatePairs(table, Pairs, Genes, Nper) : table[p][g] # 0}

AllFilled(Pairs, filled) == filled = Pairs \X Dirs
Min2(a, b) == IF a < b THEN a ELSE b
\* C12: coverage of every pair as far as possible
Coverage(table, Pairs, Genes, Nper, chosen) ==
    \A p \in Pairs : Agg(table, chosen, p) >= Min2(2 * Nper, Total(table, Genes, p))
\* every selected gene is a marker of a relevant pair
Useful(table, Pairs, chosen) == \A g \in chosen : \E p \in Pairs : table[p][g] # 0
=============================================================================
