------------------------------- MODULE Validate -------------------------------
(***************************************************************************)
(* Validation of an h5ad file (validation/validate_h5ad.py: _validate_h5ad;*)
(* validation/utils.py: is_x_integers, round_x_to_integers,                *)
(* get_minmax_x_from_h5ad, map_gene_ids_in_var; utils/utils.py:            *)
(* choose_int_dtype; gene_id/gene_id_mapper.py; gene_id/utils.py).         *)
(*                                                                         *)
(* Magnitudes are symbolic: [s, k, d] stands for  s * 2^k + d/2  with      *)
(* s in {1,-1}, k in {0,7,8,15,16,31,32}, d a small integer, so that the   *)
(* boundaries of every integer type up to 32 bits (and the step to 64) can *)
(* be enumerated without large integers.                                   *)
(***************************************************************************)
EXTENDS Integers, Sequences, FiniteSets, TLC, Json

Ks == {0, 7, 8, 15, 16, 31, 32}
Rank(k) == CASE k = 0 -> 0 [] k = 7 -> 1 [] k = 8 -> 2 [] k = 15 -> 3 [] k = 16 -> 4 [] k = 31 -> 5 [] k = 32 -> 6

\* order.  Elements with k = 0 are small (between -3 and 2.5) and are compared through their exact
\* value in half-units; the powers 2^7 .. 2^32 are far apart, so large elements are ordered by
\* (sign * rank of the power) first and by the offset second.
Small(a) == a.k = 0
Half(a) == 2 * a.s + a.d                      \* twice the value of a small element
Lt(a, b) == IF Small(a) /\ Small(b) THEN Half(a) < Half(b)
            ELSE IF Small(a) THEN b.s = 1
            ELSE IF Small(b) THEN a.s = -1
            ELSE LET ka == a.s * Rank(a.k) kb == b.s * Rank(b.k) IN
                 IF ka # kb THEN ka < kb ELSE a.d < b.d
Same(a, b) == IF Small(a) /\ Small(b) THEN Half(a) = Half(b) ELSE a.s = b.s /\ a.k = b.k /\ a.d = b.d
Leq(a, b) == Lt(a, b) \/ Same(a, b)

\* is the magnitude an integer?  2^k is an integer; d/2 is one iff d is even
Integral(a) == a.d % 2 = 0
\* numpy rounds to the nearest integer, halves to the even neighbour.  For k >= 7, 2^k is even, so
\* s*2^k + (2j+1)/2 lies between the integers s*2^k + j and s*2^k + j + 1; the even one is chosen.
\* For k = 0 the base is 1 (odd).
RoundHE(a) ==
    IF Integral(a) THEN a
    ELSE LET j == (a.d - 1) \div 2                   \* d = 2j + 1
             base_even == (a.k # 0)                 \* parity of s * 2^k
             lowEven == IF base_even THEN j % 2 = 0 ELSE j % 2 # 0
         IN IF lowEven THEN [a EXCEPT !.d = 2 * j] ELSE [a EXCEPT !.d = 2 * j + 2]
\* |a - RoundHE(a)| <= 1/2 by construction: the offsets differ by exactly 1 half-unit
MovedAtMostHalf(a) == LET r == RoundHE(a) IN r.s = a.s /\ r.k = a.k /\ (r.d - a.d = 1 \/ a.d - r.d = 1 \/ r.d = a.d)

(***************************************************************************)
(* Integer types in the order the code tries them.                         *)
(***************************************************************************)
Types == <<"uint8", "int8", "uint16", "int16", "uint32", "int32", "uint64", "int64">>
Zero == [s |-> 1, k |-> 0, d |-> -2]
TMin(t) == CASE t = "uint8" -> Zero [] t = "uint16" -> Zero [] t = "uint32" -> Zero [] t = "uint64" -> Zero
             [] t = "int8" -> [s |-> -1, k |-> 7, d |-> 0] [] t = "int16" -> [s |-> -1, k |-> 15, d |-> 0]
             [] t = "int32" -> [s |-> -1, k |-> 31, d |-> 0] [] t = "int64" -> [s |-> -1, k |-> 32, d |-> -100]
TMax(t) == CASE t = "uint8" -> [s |-> 1, k |-> 8, d |-> -2] [] t = "int8" -> [s |-> 1, k |-> 7, d |-> -2]
             [] t = "uint16" -> [s |-> 1, k |-> 16, d |-> -2] [] t = "int16" -> [s |-> 1, k |-> 15, d |-> -2]
             [] t = "uint32" -> [s |-> 1, k |-> 32, d |-> -2] [] t = "int32" -> [s |-> 1, k |-> 31, d |-> -2]
             [] t = "uint64" -> [s |-> 1, k |-> 32, d |-> 100] [] t = "int64" -> [s |-> 1, k |-> 32, d |-> 100]
Fits(t, lo, hi) == Leq(TMin(t), RoundHE(lo)) /\ Leq(RoundHE(hi), TMax(t))
ChooseIntType(lo, hi) == Types[CHOOSE i \in 1..Len(Types) : Fits(Types[i], lo, hi) /\ \A j \in 1..(i - 1) : ~Fits(Types[j], lo, hi)]

(***************************************************************************)
(* Gene identifiers.  cls: "ens" Ensembl id, "ensv" Ensembl id with a      *)
(* version suffix, "sym" a symbol known to the mapper, "unk" anything else.*)
(* id: which gene it denotes (sym i maps to Ensembl id i).                 *)
(***************************************************************************)
MapGene(g, pos) == IF g.cls \in {"ens", "ensv", "sym"} THEN <<"ens", g.id>> ELSE <<"placeholder", pos>>
Mapped(genes) == [i \in 1..Len(genes) |-> MapGene(genes[i], i)]
Renamed(genes) == \E i \in 1..Len(genes) : genes[i].cls # "ens"
NMapped(genes) == Cardinality({i \in 1..Len(genes) : genes[i].cls # "unk"})
TwoToOne(genes) == \E i, j \in 1..Len(genes) : i # j /\ Mapped(genes)[i] = Mapped(genes)[j]
DuplicateNames(genes) == \E i, j \in 1..Len(genes) : i # j /\ genes[i] = genes[j]
AllUnknown(genes) == \A i \in 1..Len(genes) : genes[i].cls = "unk"

(***************************************************************************)
(* Outcome of validate_h5ad.                                               *)
(***************************************************************************)
MustReject(genes, dupCells, emptyName) == dupCells \/ emptyName \/ DuplicateNames(genes) \/ TwoToOne(genes)
\* the mapper refuses a file in which no gene at all can be mapped (not part of the statement's list:
\* either outcome is accepted there)
MayReject(genes) == AllUnknown(genes)
NeedsCopy(layerIsX, genes, round, allIntegral) == ~layerIsX \/ Renamed(genes) \/ (round /\ ~allIntegral)
\* are values changed, and which type holds them
Rounds(round, allIntegral) == round /\ ~allIntegral
=============================================================================
