--------------------------- MODULE Relations_Trace ---------------------------
(***************************************************************************)
(* One NDJSON line per pair of real runs:                                  *)
(*  {"rel": kind, "tree": TreeJson (stored tree of the image run),         *)
(*   "base": [records], "image": [records], "levels": [..], "ids": [..],   *)
(*   "inferred": [[lev, from], ..]}                                        *)
(* kinds: "order_bits"  same cells, same order, bitwise equal on levels    *)
(*        "order_close" same cells, same order, discrete equal + close     *)
(*        "join_bits"   joined on cell id over ids, bitwise equal          *)
(*        "join_close"  joined on cell id over ids, discrete equal + close *)
(* plus, for every pair in "inferred": the image's level lev is inferred   *)
(* from level `from` (C17).  Clause numbers 17xx.                          *)
(***************************************************************************)
EXTENDS Relations, TLC, Json, IOUtils

Traces == ndJsonDeserialize(IOEnv.TRACE_FILE)
N == Len(Traces)
VARIABLES tid, l
vars == <<tid, l>>
Rng(s) == {s[i] : i \in 1..Len(s)}

TreeOf(j) ==
    LET L == Len(j.hier)
        idx(lv) == CHOOSE i \in 1..L : j.hier[i] = lv
        lv == Rng(j.keys)
    IN [hier  |-> j.hier, keys |-> lv,
        nodes |-> [x \in lv |-> Rng(j.nodes[idx(x)])],
        kids  |-> [x \in lv |-> [n \in Rng(j.nodes[idx(x)]) |->
                     LET e == CHOOSE i \in 1..Len(j.kids[idx(x)]) : j.kids[idx(x)][i][1] = n
                     IN Rng(j.kids[idx(x)][e][2])]],
        cells |-> [n \in Rng(j.nodes[L]) |-> {}]]

Entry(x) == [lev |-> x.lev, a |-> x.a, k |-> x.k, direct |-> x.direct, f |-> x.f, q |-> x.q,
             ru |-> [i \in 1..Len(x.ru) |-> <<x.ru[i][1], x.ru[i][2]>>]]
Recs(s) == [i \in 1..Len(s) |-> [id |-> s[i].id, lv |-> [j \in 1..Len(s[i].lv) |-> Entry(s[i].lv[j])]]]

Err(r) ==
    LET base == Recs(r.base) image == Recs(r.image)
        levels == Rng(r.levels) ids == Rng(r.ids)
        T == TreeOf(r.tree)
    IN
    IF r.rel = "order_bits" /\ ~SameOrder(base, image, levels, EqBits) THEN 1701
    ELSE IF r.rel = "order_close" /\ ~SameOrder(base, image, levels, EqClose) THEN 1702
    ELSE IF r.rel = "join_bits" /\ ~JoinById(base, image, ids, levels, EqBits) THEN 1703
    ELSE IF r.rel = "join_close" /\ ~JoinById(base, image, ids, levels, EqClose) THEN 1704
    ELSE IF ~(r.rel \in {"order_bits", "order_close", "join_bits", "join_close"}) THEN 1799
    ELSE IF ~(\A i \in 1..Len(r.inferred) : InferredFrom(image, T, r.inferred[i][1], r.inferred[i][2])) THEN 1710
    ELSE IF ~(Len(r.inferred) = 0 \/ AllLevels(image, T)) THEN 1711
    ELSE 0

ASSUME \A i \in 1..(2 * N) : TLCSet(i, 0)
Init == tid \in 1..N /\ l = 1
Step == /\ l = 1
        /\ LET c == Err(Traces[tid]) IN
           IF c = 0 THEN l' = 2 /\ UNCHANGED tid ELSE TLCSet(N + tid, c) /\ FALSE
Spec == Init /\ [][Step]_vars
Track == IF TLCGet(tid) < l THEN TLCSet(tid, l) ELSE TRUE
Report == \A i \in 1..N : PrintT(<<"VERDICT", i, TLCGet(i), 2, TLCGet(N + i)>>)
=============================================================================
