----------------------------- MODULE Guards_MC -----------------------------
EXTENDS Guards, TLC, Json
ASSUME Sound
ASSUME Loophole
Emit(dummy) == \A c \in Configs :
    PrintT(<<"SCN", ToJson([c |-> [factor |-> c.factor, lookup |-> c.lookup, norm |-> c.norm, dst |-> c.dst,
                                    taken |-> c.taken, clobber |-> c.clobber],
                             accepted |-> Accepted(c), reasons |-> Reasons(c)])>>)
ASSUME Emit(0)
VARIABLE x
Spec == x = 0 /\ [][FALSE]_x
=============================================================================
