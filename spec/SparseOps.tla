------------------------------ MODULE SparseOps ------------------------------
(***************************************************************************)
(* File-level reshaping operations on sparse h5ad matrices                 *)
(* (utils/anndata_utils.py: pivot_csr_h5ad, shuffle_csr_h5ad_rows,         *)
(* subset_csc_h5ad_columns, amalgamate_h5ad, copy_layer_to_x) as           *)
(* operators on the dense matrix they must preserve.  A matrix is a        *)
(* sequence of rows, a row a sequence of values; stored entries carry      *)
(* distinct positive values (10*row + column), everything else is 0.       *)
(* The module only enumerates scenarios with their expected result; the    *)
(* harness writes the files, calls the real functions and compares.        *)
(***************************************************************************)
EXTENDS Integers, Sequences, FiniteSets, FiniteSetsExt, SequencesExt, TLC, Json

CONSTANTS A, B

VARIABLES pat, phase
vars == <<pat, phase>>

Mat(p) == [r \in 1..A |-> [c \in 1..B |-> IF c \in p[r] THEN 10 * r + c ELSE 0]]
\* the second input file of amalgamation scenarios: the mirrored pattern with other values
Mat2(p) == [r \in 1..A |-> [c \in 1..B |-> IF (B + 1 - c) \in p[r] THEN 100 + 10 * r + c ELSE 0]]

Perms == {f \in [1..A -> 1..A] : \A i, j \in 1..A : i # j => f[i] # f[j]}
Shuffle(M, f) == [i \in 1..A |-> M[f[i]]]
SubsetCols(M, S) == LET cs == SetToSortSeq(S, <) IN [r \in 1..A |-> [j \in 1..Len(cs) |-> M[r][cs[j]]]]
\* stacking row selections from two files: sel = sequence of <<file (1|2), sequence of rows>>
Stack(M1, M2, sel) ==
    FoldSeq(LAMBDA s, acc : acc \o [j \in 1..Len(s[2]) |-> (IF s[1] = 1 THEN M1 ELSE M2)[s[2][j]]], <<>>, sel)

\* row lists are duplicate-free (a repeated row is refused by the row reader, see C05)
RowSeqs == {<<>>} \cup {<<r>> : r \in 1..A} \cup {<<x[1], x[2]>> : x \in {y \in (1..A) \X (1..A) : y[1] # y[2]}}
Selections == {<<<<1, a>>, <<2, b>>>> : a \in RowSeqs, b \in RowSeqs}
                 \cup {<<<<2, b>>, <<1, a>>, <<1, b>>>> : a \in {<<1>>, <<A, 1>>}, b \in {<<>>, <<A>>}}

Init == pat \in [1..A -> SUBSET (1..B)] /\ phase = "new"
Emit == /\ phase = "new"
        /\ PrintT(<<"SCN", ToJson(
              [matrix |-> Mat(pat), matrix2 |-> Mat2(pat),
               shuffles |-> {[perm |-> f, result |-> Shuffle(Mat(pat), f)] : f \in Perms},
               subsets |-> {[cols |-> S, result |-> SubsetCols(Mat(pat), S)] : S \in (SUBSET (1..B)) \ {{}}},
               stacks |-> {[sel |-> s, result |-> Stack(Mat(pat), Mat2(pat), s)] :
                              s \in {x \in Selections : \E i \in 1..Len(x) : Len(x[i][2]) > 0}}])>>)
        /\ phase' = "emitted" /\ UNCHANGED pat
Spec == Init /\ [][Emit]_vars

\* sanity of the operators themselves (checked by TLC on every pattern)
ShuffleIsPermutation == \A f \in Perms : \A r \in 1..A : \E i \in 1..A : Shuffle(Mat(pat), f)[i] = Mat(pat)[r]
SubsetKeepsRows == \A S \in (SUBSET (1..B)) \ {{}} : Len(SubsetCols(Mat(pat), S)) = A
=============================================================================
