SPECIFICATION FairSpec
CONSTANTS N = 3 P = 2 FaultKs = {0} FaultPoints = {"before"} FaultModes = {"kill"} Fixed = FALSE
INVARIANT TypeOK
INVARIANT SeedsInDispatchOrder
INVARIANT ReturnedComplete
INVARIANT NeverMoreThanP
INVARIANT ScratchEmptyAtEnd
PROPERTY NoFaultLeadsToReturn
CHECK_DEADLOCK FALSE
