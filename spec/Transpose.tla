------------------------------ MODULE Transpose ------------------------------
(***************************************************************************)
(* On-disk transposition of a sparse matrix (utils/csc_to_csr.py:          *)
(* _calculate_csr_indptr, transpose_sparse_matrix_on_disk;                 *)
(* utils/csc_to_csr_parallel.py: _transpose_sparse_matrix_on_disk_v2).     *)
(*                                                                         *)
(* Input: A majors (pointer axis of the input), B minors (values of the    *)
(* input's index array, 0..B-1), pattern M[a] = set of minors stored in    *)
(* major a.  The stored entries in file order are E (majors ascending,     *)
(* minors ascending inside a major); entry k carries the value k.          *)
(*                                                                         *)
(* The serial algorithm, for the slice [lo, hi) of the minor axis:         *)
(*   count pass  : Ptr[v] = number of entries with slice-relative minor    *)
(*                 < v (the output pointer array), nextIdx = copy of Ptr   *)
(*   outer loop  : block [r0, r1) of output slices: the smallest r1 > r0   *)
(*                 with Ptr[r1] - Ptr[r0] >= El, or the last slice         *)
(*   inner loop  : the input is read in load chunks of Ld entries; entries *)
(*                 of the chunk that fall in the block are written, per    *)
(*                 output slice in ascending major order, at nextIdx       *)
(* El and Ld are the code's elements_at_a_time / load_chunk_size (which it *)
(* floors at 100; here they are model parameters so that every boundary    *)
(* occurs on small matrices).                                              *)
(*                                                                         *)
(* The parallel version splits 0..B-1 into ceil(B/P) wide slices, runs the *)
(* serial algorithm on each and concatenates in slice order.               *)
(***************************************************************************)
EXTENDS Integers, Sequences, FiniteSets, FiniteSetsExt, SequencesExt, TLC, Json

CONSTANTS A, B, MaxLd, MaxEl, Slices    \* Slices: TRUE = also explore every sub-range [lo,hi)

VARIABLES M, E, N, Ld, El, lo, hi, Ptr, pc, r0, r1, i0, nextIdx, outMaj, outDat
vars == <<M, E, N, Ld, El, lo, hi, Ptr, pc, r0, r1, i0, nextIdx, outMaj, outDat>>

SortedSeq(S) == SetToSortSeq(S, <)
EntriesOf(m) ==
    LET F[a \in 0..A] == IF a = 0 THEN <<>>
                         ELSE F[a - 1] \o [i \in 1..Cardinality(m[a]) |->
                                              [maj |-> a, min |-> SortedSeq(m[a])[i] - 1]]
    IN F[A]

W == hi - lo
\* count pass (_calculate_csr_indptr)
PtrOf(e, l, h) ==
    LET cnt(v) == Cardinality({k \in 1..Len(e) : e[k].min = v + l})
        P[v \in 0..(h - l)] == IF v = 0 THEN 0 ELSE P[v - 1] + cnt(v - 1)
    IN P

Init == /\ M \in [1..A -> SUBSET (1..B)]
        /\ E = EntriesOf(M) /\ N = Len(EntriesOf(M))
        /\ Ld \in 1..MaxLd /\ El \in 1..MaxEl
        /\ IF Slices THEN \E l \in 0..(B - 1) : \E h \in (l + 1)..B : lo = l /\ hi = h
                     ELSE lo = 0 /\ hi = B
        /\ Ptr = PtrOf(EntriesOf(M), lo, hi)
        /\ pc = "block" /\ r0 = 0 /\ r1 = 0 /\ i0 = 0
        /\ nextIdx = Ptr
        /\ outMaj = [k \in 1..Ptr[hi - lo] |-> 0] /\ outDat = [k \in 1..Ptr[hi - lo] |-> 0]

NNZ == Ptr[W]

\* outer loop: choose the next block or stop
Block == /\ pc = "block"
         /\ LET cands == {c \in (r0 + 1)..W : Ptr[c] - Ptr[r0] >= El \/ c = W} IN
            IF cands = {} THEN pc' = "done" /\ UNCHANGED <<r1, i0>>
            ELSE r1' = Min(cands) /\ i0' = 0 /\ pc' = "load"
         /\ UNCHANGED <<M, E, N, Ld, El, lo, hi, Ptr, r0, nextIdx, outMaj, outDat>>

\* inner loop: one load chunk E[i0+1 .. i1]
Load == /\ pc = "load"
        /\ IF i0 >= N
           THEN /\ pc' = "block" /\ r0' = r1 /\ UNCHANGED <<i0, nextIdx, outMaj, outDat>>
           ELSE LET i1 == IF i0 + Ld < N THEN i0 + Ld ELSE N
                    rel(k) == E[k].min - lo
                    ks == {k \in (i0 + 1)..i1 : E[k].min >= lo /\ E[k].min < hi /\ rel(k) >= r0 /\ rel(k) < r1}
                    \* within one output slice the chunk's entries are written in ascending major
                    rank(k) == Cardinality({j \in ks : rel(j) = rel(k) /\ E[j].maj < E[k].maj})
                    pos(k) == nextIdx[rel(k)] + rank(k) + 1
                IN /\ outMaj' = [p \in 1..NNZ |-> IF \E k \in ks : pos(k) = p
                                                   THEN E[CHOOSE k \in ks : pos(k) = p].maj - 1 ELSE outMaj[p]]
                   /\ outDat' = [p \in 1..NNZ |-> IF \E k \in ks : pos(k) = p
                                                   THEN (CHOOSE k \in ks : pos(k) = p) ELSE outDat[p]]
                   /\ nextIdx' = [v \in 0..W |-> nextIdx[v] + Cardinality({k \in ks : rel(k) = v})]
                   /\ i0' = i1 /\ UNCHANGED <<pc, r0>>
        /\ UNCHANGED <<M, E, N, Ld, El, lo, hi, Ptr, r1>>

Next == Block \/ Load
Spec == Init /\ [][Next]_vars

----------------------------------------------------------------------------
\* C13 at termination: monotone pointer array ending at the number of stored entries; minor
\* indices (= input majors) sorted and unique within each output slice; every stored value at its
\* transposed position, each exactly once
PtrMonotone == /\ Ptr[0] = 0 /\ \A v \in 0..(W - 1) : Ptr[v] <= Ptr[v + 1]
               /\ Ptr[W] = Cardinality({k \in 1..N : E[k].min >= lo /\ E[k].min < hi})
Correct == pc = "done" =>
    /\ \A v \in 0..(W - 1) :
          LET seg == [j \in 1..(Ptr[v + 1] - Ptr[v]) |-> outMaj[Ptr[v] + j]]
              want == SortedSeq({a - 1 : a \in {x \in 1..A : (v + lo + 1) \in M[x]}})
          IN seg = want
    /\ \A p \in 1..NNZ : outDat[p] # 0 /\ E[outDat[p]].maj - 1 = outMaj[p]
    /\ \A p, q \in 1..NNZ : p # q => outDat[p] # outDat[q]
\* the write cursors never run into the next slice (the block buffers are filled exactly)
CursorInv == \A v \in 0..(W - 1) : nextIdx[v] >= Ptr[v] /\ nextIdx[v] <= Ptr[v + 1]
Terminates == <>(pc = "done")

----------------------------------------------------------------------------
\* parallel version (_transpose_sparse_matrix_on_disk_v2): the minor axis is cut into ranges
\* of width ceil(B / P); the pieces (each a correct serial result, see Correct) are joined in range
\* order: pointer entries shifted by the number of entries already written, last pointer = total
SliceCols(m, v) == SortedSeq({a - 1 : a \in {x \in 1..A : (v + 1) \in m[x]}})
Piece(m, l, h) == [ptr |-> PtrOf(EntriesOf(m), l, h),
                   cols |-> FoldSeq(LAMBDA v, acc : acc \o SliceCols(m, v), <<>>,
                                    [j \in 1..(h - l) |-> l + j - 1])]
Ranges(P) == LET w == (B + P - 1) \div P
                 n == (B + w - 1) \div w
             IN [j \in 1..n |-> <<(j - 1) * w, IF j * w < B THEN j * w ELSE B>>]
RECURSIVE JoinFrom(_, _, _, _, _)
JoinFrom(m, rs, j, ptrAcc, colAcc) ==
    IF j > Len(rs) THEN [indptr |-> Append(ptrAcc, Len(colAcc)), indices |-> colAcc]
    ELSE LET pc_ == Piece(m, rs[j][1], rs[j][2])
             w == rs[j][2] - rs[j][1]
         IN JoinFrom(m, rs, j + 1,
                     ptrAcc \o [v \in 1..w |-> pc_.ptr[v - 1] + Len(colAcc)],
                     colAcc \o pc_.cols)
Joined(m, P) == JoinFrom(m, Ranges(P), 1, <<>>, <<>>)
Whole(m) == LET pw == Piece(m, 0, B) IN
            [indptr |-> [v \in 1..(B + 1) |-> pw.ptr[v - 1]], indices |-> pw.cols]
ParallelJoinCorrect == (pc = "block" /\ r0 = 0 /\ lo = 0 /\ hi = B /\ Ld = 1 /\ El = 1) =>
                          \A P \in 1..(B + 1) : Joined(M, P) = Whole(M)

\* scenario emission: every pattern with its whole transpose (pointer array, minor indices, and for
\* each output position the file-order number of the stored entry that must land there)
DatOf(m) == LET e == EntriesOf(m) IN
            FoldSeq(LAMBDA v, acc : acc \o SortedSeq({k \in 1..Len(e) : e[k].min = v}), <<>>,
                    [j \in 1..B |-> j - 1])
EmitAct == /\ pc = "block" /\ r0 = 0
           /\ PrintT(<<"SCN", ToJson([rows |-> [a \in 1..A |-> SortedSeq({x - 1 : x \in M[a]})],
                                      indptr |-> Whole(M).indptr, indices |-> Whole(M).indices,
                                      dat |-> DatOf(M)])>>)
           /\ pc' = "emitted" /\ UNCHANGED <<M, E, N, Ld, El, lo, hi, Ptr, r0, r1, i0, nextIdx, outMaj, outDat>>
GenInit == Init /\ Ld = 1 /\ El = 1 /\ lo = 0 /\ hi = B
GenSpec == GenInit /\ [][EmitAct]_vars
=============================================================================
