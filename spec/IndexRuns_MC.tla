---------------------------- MODULE IndexRuns_MC ----------------------------
EXTENDS IndexRuns, TLC, Json
CONSTANTS MaxV, MaxLen
VARIABLES lst
MCInit == lst \in UNION {[1..n -> 0..MaxV] : n \in 1..MaxLen}
MCNext == UNCHANGED lst
MCSpec == MCInit /\ [][MCNext]_lst
InvExact == Exact(SetOf(lst))
InvMaximal == Maximal(SetOf(lst))
InvNonEmpty == NonEmptySlices(SetOf(lst))
Emit == PrintT(<<"SCN", ToJson([lst |-> lst])>>)
=============================================================================
