SPECIFICATION Spec
CONSTANTS NP = 3 NR = 2 MaxIn = 3
CHECK_DEADLOCK FALSE
