SPECIFICATION Spec
CONSTANTS L = 2 Nodes = {1, 2} B = 2 MaxCells = 2 CorrVals = {3, 7}
          Cuts <- MCCuts
INVARIANT InvAgrees
INVARIANT InvPartition
INVARIANT InvFPleFN
INVARIANT InvCorrDown
INVARIANT InvProbDown
INVARIANT InvMicroRange
CHECK_DEADLOCK FALSE
