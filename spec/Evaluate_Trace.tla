--------------------------- MODULE Evaluate_Trace ---------------------------
(***************************************************************************)
(* Real calls of avg_f1 against Evaluate.tla.  One NDJSON line per call:   *)
(*  {"L":n, "B":n, "nodes":[[..] per level], "cells":[{"truth":[..],       *)
(*   "asg":[..], "k":[..], "corr":[..]}], "cuts":[["p",num,den]|["c",t,0]],*)
(*   "res":[{"lev":l, "cut":index, "tp","fp","fn","n","valid",             *)
(*           "micro":[num,den,isnan], "macro":[num,den,isnan],             *)
(*           "adj":[num,den,isnan], "est":[num,den,isnan]}]}               *)
(* Floats arrive as the nearest fraction with a small denominator.         *)
(* Clause numbers 31xx.                                                    *)
(***************************************************************************)
EXTENDS Evaluate, TLC, Json, IOUtils
Traces == ndJsonDeserialize(IOEnv.TRACE_FILE)
N == Len(Traces)
VARIABLES tid, l
vars == <<tid, l>>
SRng(s) == {s[i] : i \in 1..Len(s)}
CellOf(c) == [truth |-> c.truth, asg |-> c.asg, k |-> c.k, corr |-> c.corr]
CutOf(c) == IF c[1] = "p" THEN <<"p", c[2], c[3]>> ELSE <<"c", c[2]>>
EqFrac(a, b) == a[1] * b[2] = b[1] * a[2]
ErrRes(t, r) ==
    LET cs == [i \in 1..Len(t.cells) |-> CellOf(t.cells[i])]
        cut == CutOf(t.cuts[r.cut])
        Ns == SRng(t.nodes[r.lev])
        V == Valid(cs, r.lev, cut, t.B, Ns)
        ms == MacroSum(cs, r.lev, cut, t.B, Ns)
        mi == Micro(cs, r.lev, cut, t.B, Ns)
    IN  IF r.tp # TotTP(cs, r.lev, cut, t.B, Ns) THEN 3101
        ELSE IF r.fp # TotFP(cs, r.lev, cut, t.B, Ns) THEN 3102
        ELSE IF r.fn # TotFN(cs, r.lev, cut, t.B, Ns) THEN 3103
        ELSE IF r.n # Len(cs) THEN 3104
        ELSE IF r.valid # Cardinality(V) THEN 3105
        ELSE IF (r.micro[3] = 1) # (mi[2] = 0) THEN 3106
        ELSE IF r.micro[3] = 0 /\ ~EqFrac(<<r.micro[1], r.micro[2]>>, mi) THEN 3106
        ELSE IF (r.macro[3] = 1) # (V = {}) THEN 3107
        ELSE IF r.macro[3] = 0 /\ ~EqFrac(<<r.macro[1] * Cardinality(V), r.macro[2]>>, ms) THEN 3107
        ELSE IF r.adj[3] = 0 /\ ~EqFrac(<<r.adj[1] * Cardinality(Ns), r.adj[2]>>, ms) THEN 3108
        ELSE IF cut[1] = "p" /\ ~EqFrac(<<r.est[1], r.est[2]>>, <<EstFPNum(cs, r.lev, cut, t.B), Pow(t.B, r.lev)>>) THEN 3109
        ELSE 0
Err(t) == LET es == {ErrRes(t, t.res[i]) : i \in 1..Len(t.res)} \ {0} IN
          IF Len(t.res) # t.L * Len(t.cuts) THEN 3110           \* a (level, cut) without a result / a key written twice
          ELSE IF es = {} THEN 0 ELSE CHOOSE x \in es : \A y \in es : x <= y
ASSUME \A i \in 1..(2 * N) : TLCSet(i, 0)
Init == tid \in 1..N /\ l = 1
Step == /\ l = 1
        /\ LET c == Err(Traces[tid]) IN
           IF c = 0 THEN l' = 2 /\ UNCHANGED tid ELSE TLCSet(N + tid, c) /\ FALSE
Spec == Init /\ [][Step]_vars
Track == IF TLCGet(tid) < l THEN TLCSet(tid, l) ELSE TRUE
Report == \A i \in 1..N : PrintT(<<"VERDICT", i, TLCGet(i), 2, TLCGet(N + i)>>)
=============================================================================
