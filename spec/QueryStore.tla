----------------------------- MODULE QueryStore -----------------------------
(***************************************************************************)
(* Writing mapping results back into the query file                        *)
(* (cli/from_specified_markers.py: _run_mapping, obsm_key / obsm_clobber;  *)
(* utils/anndata_utils.py: append_to_obsm).                                *)
(*                                                                         *)
(* The query file is [base, obsm]: base stands for everything a run must   *)
(* never change (X, layers, obs, var, uns); obsm maps keys to what is      *)
(* stored there: 0 = data that was in the file before any run ("foreign"), *)
(* r > 0 = the result table of run r.                                      *)
(* A run names a key (or none) and a clobber flag.                         *)
(*   no key            : file untouched, run succeeds                      *)
(*   key free / clobber: obsm[key] := own result, nothing else changes     *)
(*   key taken, no clobber: the run ends with an error, file untouched     *)
(* Extension suite X01 (not one of the 20 listed statements; it refines    *)
(* C19's "the query file is written to only when storing results in it is  *)
(* requested" and adds a fourth view to C15's Outputs.tla).                *)
(***************************************************************************)
EXTENDS Integers, Sequences, FiniteSets

CONSTANTS Keys,        \* keys a run may name
          Foreign,     \* keys present in the file before the first run
          MaxRuns
None == "none"
VARIABLES obsm,        \* key -> owner (0 foreign, r run)
          base,        \* token of the immutable part (never changes: TRUE)
          hist         \* sequence of [key, clobber, ok]
vars == <<obsm, base, hist>>

Init == obsm = [k \in Foreign |-> 0] /\ base = TRUE /\ hist = <<>>

Outcome(o, key, clobber) == key = None \/ key \notin DOMAIN o \/ clobber
After(o, key, clobber, r) ==
    IF key = None \/ ~Outcome(o, key, clobber) THEN o
    ELSE [k \in (DOMAIN o) \cup {key} |-> IF k = key THEN r ELSE o[k]]

Run(key, clobber) ==
    /\ Len(hist) < MaxRuns
    /\ LET r == Len(hist) + 1 IN
       /\ obsm' = After(obsm, key, clobber, r)
       /\ hist' = Append(hist, [key |-> key, clobber |-> clobber, ok |-> Outcome(obsm, key, clobber)])
    /\ UNCHANGED base
Next == \E key \in Keys \cup {None}, clobber \in BOOLEAN : Run(key, clobber)
Spec == Init /\ [][Next]_vars

\* ------------------------------------------------------------------ properties
BaseNeverChanges == base
\* a key holds the result of the LAST successful run that named it, or what was there before
LastWriter(k) == LET ws == {i \in 1..Len(hist) : hist[i].key = k /\ hist[i].ok} IN
                 IF ws = {} THEN 0 ELSE CHOOSE i \in ws : \A j \in ws : j <= i
OwnersRight == \A k \in DOMAIN obsm : obsm[k] = LastWriter(k)
NothingLost == Foreign \subseteq DOMAIN obsm /\ \A i \in 1..Len(hist) : (hist[i].ok /\ hist[i].key # None) => hist[i].key \in DOMAIN obsm
\* a run fails exactly when it would overwrite without permission
FailsOnlyOnTaken == \A i \in 1..Len(hist) : ~hist[i].ok => (hist[i].key # None /\ ~hist[i].clobber)
=============================================================================
