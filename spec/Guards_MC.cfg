SPECIFICATION Spec
CHECK_DEADLOCK FALSE
