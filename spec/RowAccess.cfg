SPECIFICATION Spec
CONSTANTS NR = 3 NC = 2 Vals = {0, 1, 2} MaxBatch = 3
INVARIANT RangesTile
INVARIANT FullChunks
INVARIANT EveryRowOnce
INVARIANT BatchCorrect
CHECK_DEADLOCK FALSE
