SPECIFICATION FairSpec
CONSTANTS N = 3 P = 2 FaultKs = {1, 2, 3} FaultPoints = {"before", "mid", "after"} FaultModes = {"kill", "exit3", "raise", "term"} Fixed = FALSE
INVARIANT TypeOK
INVARIANT FailNeverReturns
INVARIANT RaisedHasNoResults
PROPERTY FaultLeadsToRaise
CHECK_DEADLOCK FALSE
