------------------------------- MODULE Guards -------------------------------
(***************************************************************************)
(* What the configuration schema of the mapping command refuses before     *)
(* anything runs (schemas/hierarchical_type_assignment.py, mixins.py):     *)
(* a decision table over the fields the guards read.  The guards are       *)
(* independent hooks, so a configuration with several defects may be       *)
(* refused for any one of them.                                            *)
(*   factor : "none" | "neg" | "zero" | "tiny" | "half" | "one" |          *)
(*            "one_eps" (1 + 5e-7) | "big" (1 + 2e-6)                      *)
(*   lookup : a per-level table of factors is given                        *)
(*   norm   : "raw" | "log2CPM" | "other"                                  *)
(*   dst    : subset of {"json", "hdf5", "obsm"} - where the extended      *)
(*            result goes                                                  *)
(*   taken  : the query file already has the obsm key                      *)
(*   clobber: permission to overwrite it                                   *)
(***************************************************************************)
EXTENDS FiniteSets

Factors == {"none", "neg", "zero", "tiny", "half", "one", "one_eps", "big"}
FactorOutOfRange(f) == f \in {"neg", "zero", "big"}

Reasons(c) ==
    (IF c.factor # "none" /\ FactorOutOfRange(c.factor) THEN {"factor_range"} ELSE {})
    \cup
    \* the normalisation is looked at by the same guard, after the range test, and only when a global factor is given
    (IF c.factor # "none" /\ ~FactorOutOfRange(c.factor) /\ c.norm = "other" THEN {"normalization"} ELSE {})
    \cup
    (IF (c.factor = "none") = (~c.lookup) THEN {"factor_or_lookup"} ELSE {})
    \cup
    (IF "obsm" \in c.dst /\ c.taken /\ ~c.clobber THEN {"obsm_taken"} ELSE {})
    \cup
    (IF c.dst = {} THEN {"no_destination"} ELSE {})

Accepted(c) == Reasons(c) = {}

Configs == [factor : Factors, lookup : BOOLEAN, norm : {"raw", "log2CPM", "other"},
            dst : SUBSET {"json", "hdf5", "obsm"}, taken : BOOLEAN, clobber : BOOLEAN]

\* what a user relies on
\* (1) an accepted configuration names exactly one source of bootstrap factors, a destination, and never overwrites
\*     an obsm entry without permission
Sound == \A c \in Configs : Accepted(c) =>
            /\ (c.factor # "none") # c.lookup
            /\ c.dst # {}
            /\ ~("obsm" \in c.dst /\ c.taken /\ ~c.clobber)
            /\ (c.factor # "none" => ~FactorOutOfRange(c.factor) /\ c.norm # "other")
\* (2) a loophole the table makes visible: with a per-level table the normalisation name is not looked at here
Loophole == \E c \in Configs : Accepted(c) /\ c.norm = "other"
=============================================================================
