------------------------------ MODULE RefMarkers ------------------------------
(***************************************************************************)
(* Decision whether a gene is a reference marker of a pair of leaf         *)
(* clusters (diff_exp/scores.py: score_differential_genes,                 *)
(* penetrance_tests, approx_penetrance_test, penetrance_parameter_distance;*)
(* utils/stats_utils.py: welch_t_test, correct_ttest, approx_correct_ttest;*)
(* diff_exp/score_utils.py: pij_from_stats, q_score_from_pij).             *)
(*                                                                         *)
(* Per cluster: n cells; per gene ge1 (cells with CPM >= 1) and s (sum of  *)
(* log2(CPM+1), an integer for the generated data, so means are exact      *)
(* rationals).  The raw Welch p-value of a gene is an interval atom        *)
(* [lo, hi] in units of 1e-7 supplied by the projection layer (the         *)
(* Student-t CDF is a numeric leaf); everything else is exact.             *)
(* Thresholds are rationals <<num, den>>.                                  *)
(***************************************************************************)
EXTENDS Integers, Sequences, FiniteSets, FiniteSetsExt, TLC

Unit == 10000000          \* p-values are integers in units of 1e-7
Abs(x) == IF x < 0 THEN -x ELSE x
Max2(a, b) == IF a > b THEN a ELSE b

(***************************************************************************)
(* Holm step-down on a vector p (function gene -> Int): the adjusted value *)
(* of g is the running maximum of (m - rank + 1) * p over the genes not    *)
(* larger than p[g]; ties share the rank of the first of them.             *)
(***************************************************************************)
Holm(p, g) ==
    LET G == DOMAIN p
        m == Cardinality(G)
        term(j) == (m - Cardinality({i \in G : p[i] < p[j]})) * p[j]
        raw == Max({term(j) : j \in {x \in G : p[x] <= p[g]}})
    IN IF raw > Unit THEN Unit ELSE raw
\* the code corrects only the p-values below the threshold and pads the count with the others
HolmRestricted(p, th, g) ==
    IF p[g] >= th THEN p[g]
    ELSE LET I == {i \in DOMAIN p : p[i] < th}
             m == Cardinality(DOMAIN p)
             term(j) == (m - Cardinality({i \in I : p[i] < p[j]})) * p[j]
             raw == Max({term(j) : j \in {x \in I : p[x] <= p[g]}})
         IN IF raw > Unit THEN Unit ELSE raw

(***************************************************************************)
(* Penetrance and fold change in exact rationals.                          *)
(*   P_j = ge1_j / n_j ; q1 = max(P_1, P_2) ; qdiff = |P_1 - P_2| / q1     *)
(*   fold = |s_1/n_1 - s_2/n_2|                                            *)
(* Cmp(x, th) for x = a/b (b > 0), th = <<c, d>>: 1 above, 0 on, -1 below  *)
(***************************************************************************)
Cmp(a, b, th) == IF a * th[2] > th[1] * b THEN 1 ELSE IF a * th[2] = th[1] * b THEN 0 ELSE -1
\* q1 = max(ge1_1/n1, ge1_2/n2) as a fraction <<num, den>>
Q1(c1, c2, g) == IF c1.ge1[g] * c2.n >= c2.ge1[g] * c1.n THEN <<c1.ge1[g], c1.n>> ELSE <<c2.ge1[g], c2.n>>
\* qdiff = |P1 - P2| / max(P1, P2) (0 when both are 0)
QDiffNum(c1, c2, g) == Abs(c1.ge1[g] * c2.n - c2.ge1[g] * c1.n)
QDiffDen(c1, c2, g) == LET a == c1.ge1[g] * c2.n b == c2.ge1[g] * c1.n IN IF Max2(a, b) = 0 THEN 1 ELSE Max2(a, b)
FoldNum(c1, c2, g) == Abs(c1.s[g] * c2.n - c2.s[g] * c1.n)
FoldDen(c1, c2) == c1.n * c2.n

Q1Cmp(c1, c2, g, th) == Cmp(Q1(c1, c2, g)[1], Q1(c1, c2, g)[2], th)
QDiffCmp(c1, c2, g, th) == Cmp(QDiffNum(c1, c2, g), QDiffDen(c1, c2, g), th)
FoldCmp(c1, c2, g, th) == Cmp(FoldNum(c1, c2, g), FoldDen(c1, c2), th)

\* strict corner: certainly inside / possibly inside (a value exactly on a threshold is decided by
\* floating-point rounding in the code and is not asserted)
StrictSure(c1, c2, g, T) == Q1Cmp(c1, c2, g, T.q1) = 1 /\ QDiffCmp(c1, c2, g, T.qdiff) = 1 /\ FoldCmp(c1, c2, g, T.fold) = 1
StrictMaybe(c1, c2, g, T) == Q1Cmp(c1, c2, g, T.q1) >= 0 /\ QDiffCmp(c1, c2, g, T.qdiff) >= 0 /\ FoldCmp(c1, c2, g, T.fold) >= 0
\* on or above every minimum floor
FloorOK(c1, c2, g, T) == Q1Cmp(c1, c2, g, T.q1min) >= 0 /\ QDiffCmp(c1, c2, g, T.qdiffmin) >= 0 /\ FoldCmp(c1, c2, g, T.foldmin) >= 0

\* corrected p-value below the threshold: certainly / possibly (interval atoms)
PSure(plo, phi, pth, g) == Holm(phi, g) < pth
PMaybe(plo, phi, pth, g) == Holm(plo, g) < pth

EnoughCells(c1, c2) == c1.n >= 2 /\ c2.n >= 2
\* direction: up when the mean of the second cluster is larger
IsUp(c1, c2, g) == c2.s[g] * c1.n > c1.s[g] * c2.n
MeansDiffer(c1, c2, g) == c2.s[g] * c1.n # c1.s[g] * c2.n

(***************************************************************************)
(* Soundness and completeness of a reported marker set M for one pair.     *)
(* inlist: genes allowed by the optional gene list.  Returns 0 or the      *)
(* number of the first clause violated.                                    *)
(***************************************************************************)
PairErr(c1, c2, G, plo, phi, T, inlist, exact, up, down) ==
    LET M == up \cup down IN
    IF ~(up \cap down = {}) THEN 1101                                            \* a gene both up and down
    ELSE IF ~(EnoughCells(c1, c2) \/ M = {}) THEN 1102                           \* a cluster with < 2 cells
    ELSE IF ~(M \subseteq inlist) THEN 1103                                      \* outside the gene list
    ELSE IF ~(\A g \in M : FloorOK(c1, c2, g, T)) THEN 1104                      \* below a minimum floor
    ELSE IF ~(\A g \in M : PMaybe(plo, phi, T.pth, g)) THEN 1105                 \* corrected p-value not below threshold
    ELSE IF ~(exact => \A g \in M : StrictMaybe(c1, c2, g, T)) THEN 1106         \* exact penetrance: only strict genes
    \* the penetrance q1 = max(ge1/n) is one correctly rounded division and the threshold one correctly
    \* rounded constant: equal rationals give equal floats, so "strictly above" is decided exactly
    ELSE IF ~(exact => \A g \in M : Q1Cmp(c1, c2, g, T.q1) = 1) THEN 1116          \* exact penetrance: q1 on the strict threshold
    ELSE IF ~(\A g \in up : IsUp(c1, c2, g)) THEN 1107                           \* direction = sign of mean difference
    ELSE IF ~(\A g \in down : ~IsUp(c1, c2, g) /\ MeansDiffer(c1, c2, g)) THEN 1108
    ELSE IF ~(EnoughCells(c1, c2) =>
                \A g \in inlist : (StrictSure(c1, c2, g, T) /\ PSure(plo, phi, T.pth, g)) => g \in M) THEN 1109
                                                                                  \* a gene passing the strict thresholds is missing
    ELSE 0
=============================================================================
