------------------------------ MODULE Normalize ------------------------------
(***************************************************************************)
(* Normalisation state of a cell-by-gene block (cell_by_gene/cell_by_gene.py:*)
(* CellByGeneMatrix) and the order in which the mapper uses it             *)
(* (election.py: run_type_assignment_on_h5ad_cpu; election_runner.py).     *)
(*                                                                         *)
(* Object level: norm in {"raw","log2CPM"}, gdown = "down-selected by gene"*)
(* flag, genes = columns present.  ToLog is refused unless norm = raw and  *)
(* gdown = FALSE.  As in the code, DownCells builds a new object and the   *)
(* flag is NOT carried over (deliberate transcription of the code; the     *)
(* mapper never normalises after DownCells, see PipelineOrder).            *)
(*                                                                         *)
(* Pipeline level (pmode = TRUE): Check (raw: minimum >= 0) -> ToLog on    *)
(* the full gene set -> DownGenes(markers) -> per node DownCells/DownGenes.*)
(* C07: the CPM denominator is the sum over ALL genes of the file, i.e.    *)
(* ToLog happens only while genes = AllGenes.                              *)
(***************************************************************************)
EXTENDS Integers, Sequences, FiniteSets, TLC, Json

CONSTANTS AllGenes, MaxOps

VARIABLES norm, gdown, genes, hist, last, denom
vars == <<norm, gdown, genes, hist, last, denom>>
\* denom: the gene set over which CPM was computed ({} = never normalised by the mapper)

Init == /\ norm \in {"raw", "log2CPM"} /\ gdown = FALSE /\ genes = AllGenes
        /\ hist = <<>> /\ last = "init" /\ denom = {}

ToLog == /\ Len(hist) < MaxOps
         /\ IF norm = "raw" /\ ~gdown
            THEN /\ norm' = "log2CPM" /\ denom' = genes /\ last' = "ok"
            ELSE /\ UNCHANGED <<norm, denom>> /\ last' = "error"
         /\ hist' = Append(hist, <<"tolog", {}>>) /\ UNCHANGED <<gdown, genes>>

DownGenes(S) == /\ Len(hist) < MaxOps /\ S \subseteq genes /\ S # {}
                /\ genes' = S /\ gdown' = TRUE /\ last' = "ok"
                /\ hist' = Append(hist, <<"downgenes", S>>) /\ UNCHANGED <<norm, denom>>

DownCells == /\ Len(hist) < MaxOps
             /\ gdown' = FALSE /\ last' = "ok"        \* new object: the flag is not copied
             /\ hist' = Append(hist, <<"downcells", {}>>) /\ UNCHANGED <<norm, genes, denom>>

Next == ToLog \/ DownCells \/ (\E S \in SUBSET genes : DownGenes(S))
Spec == Init /\ [][Next]_vars

\* object-level guarantees that do hold
NeverDoubleLog == [][(norm = "log2CPM") => (norm' = "log2CPM" /\ denom' = denom)]_vars
FlagBlocks == [][(gdown /\ hist' # hist /\ hist'[Len(hist')][1] = "tolog") => last' = "error"]_vars

\* the mapper's order of operations: ToLog (if raw) strictly before any down-selection
PNext == \/ (hist = <<>> /\ norm = "raw" /\ ToLog)
         \/ ((norm = "log2CPM") /\ \E S \in SUBSET genes : DownGenes(S))
         \/ ((norm = "log2CPM") /\ gdown /\ DownCells)
         \/ ((norm = "log2CPM") /\ Len(hist) > 1 /\ \E S \in SUBSET genes : DownGenes(S))
PSpec == Init /\ [][PNext]_vars
DenominatorAllGenes == denom \in {{}, AllGenes}
NormalisedBeforeUse == (\E i \in 1..Len(hist) : hist[i][1] = "downgenes") => norm = "log2CPM"

\* scenario emission: every reachable object-level state with its history
EmitAct == /\ last # "emitted"
           /\ PrintT(<<"SCN", ToJson([hist |-> [i \in 1..Len(hist) |-> [op |-> hist[i][1], genes |-> hist[i][2]]],
                                      norm |-> norm, gdown |-> gdown, genes |-> genes, last |-> last,
                                      denom |-> denom])>>)
           /\ last' = "emitted" /\ UNCHANGED <<norm, gdown, genes, hist, denom>>
GenSpec == Init /\ [][(last # "emitted" /\ Next) \/ EmitAct]_vars
=============================================================================
