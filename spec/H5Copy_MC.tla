----------------------------- MODULE H5Copy_MC -----------------------------
(***************************************************************************)
(* The walk as the code performs it (a stack of paths still to visit), on  *)
(* every tree over two names and depth <= 2 with every choice of the two   *)
(* exclusion sets; and the tiling for every shape / budget in range.       *)
(***************************************************************************)
EXTENDS H5Copy, Json

CONSTANTS MaxN, MaxM, Deep      \* Deep : the top-level names that may have members

Names == {"a", "b"}
AllPaths == {<<x>> : x \in Names} \cup {<<x, y>> : x \in Deep, y \in Names}

VARIABLES S, XG, XD, todo, dst, phase
vars == <<S, XG, XD, todo, dst, phase>>

Files == {[nodes |-> ns, kind |-> k, val |-> [p \in ns |-> Len(p) * 10 + (IF k[p] = "d" THEN 1 ELSE 2)]]
            : <<ns, k>> \in UNION {{<<ns, k>> : k \in [ns -> {"g", "d"}]} : ns \in SUBSET AllPaths}}
GoodFiles == {f \in Files : WellFormed(f)}

Init == /\ S \in GoodFiles /\ XG \in SUBSET AllPaths /\ XD \in SUBSET AllPaths
        /\ todo = {<<x>> : x \in Names} \cap S.nodes
        /\ dst = [nodes |-> {}, kind |-> <<>>, val |-> <<>>] /\ phase = "walk"

\* _copy_h5_element(current_location = p)
Visit(p) ==
    /\ phase = "walk" /\ p \in todo
    /\ IF Skipped(S, p, XG, XD)
       THEN todo' = todo \ {p} /\ UNCHANGED dst
       ELSE /\ dst' = [nodes |-> dst.nodes \cup {p},
                       kind  |-> [q \in dst.nodes \cup {p} |-> S.kind[q]],
                       val   |-> [q \in dst.nodes \cup {p} |-> S.val[q]]]
            /\ todo' = (todo \ {p}) \cup (IF S.kind[p] = "g" THEN Members(S, p) ELSE {})
    /\ UNCHANGED <<S, XG, XD, phase>>
Done == phase = "walk" /\ todo = {} /\ phase' = "done" /\ UNCHANGED <<S, XG, XD, todo, dst>>
Next == (\E p \in todo : Visit(p)) \/ Done
Spec == Init /\ [][Next]_vars

\* while walking: only kept objects, parents before members; at the end: exactly the kept objects, as they were
InvPartial == /\ dst.nodes \subseteq Kept(S, XG, XD)
              /\ \A p \in dst.nodes : PathPrefixes(p) \subseteq dst.nodes
              /\ \A p \in todo : \A q \in PathPrefixes(p) \ {p} : q \in dst.nodes
InvFinal   == phase = "done" => dst = Copy(S, XG, XD)
InvResultWellFormed == phase = "done" => WellFormed(dst)
\* excluding nothing copies everything; exclusion is monotone
InvIdentity == Copy(S, {}, {}) = S
InvMonotone == \A p \in AllPaths : Kept(S, XG \cup {p}, XD) \subseteq Kept(S, XG, XD)
                                /\ Kept(S, XG, XD \cup {p}) \subseteq Kept(S, XG, XD)

\* tiling: every axis length 0..MaxN, every budget 1..MaxM, 1-3 axes, every admissible rounding
TilingOK == \A d \in 1..3 : \A m \in 1..MaxM : \A per \in PerDim(m, d) : \A n \in 0..MaxN :
               PartitionOK(n, Runs(n, RunLen(n, per)))
\* the bound that really holds for one tile: at most per^d scalars (the doc string says max_elements)
TileBound == \A d \in 1..3 : \A m \in 1..MaxM : \A per \in PerDim(m, d) : \A n \in 0..MaxN :
               \A r \in Runs(n, RunLen(n, per)) : r[2] - r[1] <= per
ASSUME TilingOK /\ TileBound

\* scenario emission: every file x exclusion sets (initial states only)
Emit == PrintT(<<"SCN", ToJson([nodes |-> {[path |-> p, kind |-> S.kind[p]] : p \in S.nodes},
                                 xg |-> XG, xd |-> XD, kept |-> Kept(S, XG, XD)])>>)
GenSpec == Init /\ Emit /\ [][FALSE]_vars
=============================================================================
