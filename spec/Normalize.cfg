SPECIFICATION Spec
CONSTANTS AllGenes = {1, 2, 3} MaxOps = 4
PROPERTY NeverDoubleLog
PROPERTY FlagBlocks
CHECK_DEADLOCK FALSE
