--------------------------- MODULE SparseRel_Trace ---------------------------
(***************************************************************************)
(* Histories replayed into the real SparseMarkersByPair / ByGene pair.     *)
(* One NDJSON line per history: {"a0": [[gene,...] per pair], "events":    *)
(*  [{"op": "pairs"|"genes", "k": [..], "ip": bool, "A": rows, "B": rows,  *)
(*    "outA": rows, "outB": rows}]} - rows as read back through            *)
(* get_genes_for_pair / get_pairs_for_gene.  Clause numbers 37xx.          *)
(***************************************************************************)
EXTENDS SparseRel, TLC, Json, IOUtils
Traces == ndJsonDeserialize(IOEnv.TRACE_FILE)
N == Len(Traces)
VARIABLES tid, l
tvars == <<vars, tid, l>>
Stop(code) == TLCSet(N + tid, code) /\ FALSE
SetOf(s) == {s[i] : i \in 1..Len(s)}
TInit == /\ tid \in 1..N /\ l = 1
         /\ A = [i \in 1..NP |-> SetOf(Traces[tid].a0[i])]
         /\ B = Transpose(A, NG)
         /\ np = NP /\ ng = NG /\ outA = A /\ outB = B /\ inj = TRUE /\ nops = 0
RowEq(s, set) == /\ Len(s) = Cardinality(set) /\ SetOf(s) = set
                 /\ \A i \in 1..(Len(s) - 1) : s[i] < s[i + 1]
ViewEq(obs, v) == Len(obs) = Len(v) /\ \A i \in 1..Len(v) : RowEq(obs[i], v[i])
Matches(e) ==
    IF ~ViewEq(e.A, A') THEN 3701                     \* by-pair view after the call
    ELSE IF ~ViewEq(e.B, B') THEN 3702                \* by-gene view after the call
    ELSE IF ~ViewEq(e.outA, outA') THEN 3703          \* by-pair result of the call
    ELSE IF ~ViewEq(e.outB, outB') THEN 3704          \* by-gene result of the call
    ELSE IF ~Dual' THEN 3705                          \* the views disagree after repeat-free thinning
    ELSE 0
Step == /\ l <= Len(Traces[tid].events)
        /\ LET e == Traces[tid].events[l] IN
           /\ \/ e.op = "pairs" /\ KeepPairs(e.k, e.ip)
              \/ e.op = "genes" /\ KeepGenes(e.k, e.ip)
           /\ LET c == Matches(e) IN IF c = 0 THEN TRUE ELSE Stop(c)
        /\ l' = l + 1 /\ UNCHANGED tid
TSpec == TInit /\ [][Step]_tvars
ASSUME \A i \in 1..(2 * N) : TLCSet(i, 0)
Track == IF TLCGet(tid) < l THEN TLCSet(tid, l) ELSE TRUE
Report == \A i \in 1..N : PrintT(<<"VERDICT", i, TLCGet(i), Len(Traces[i].events) + 1, TLCGet(N + i)>>)
=============================================================================
