---------------------------- MODULE Pipeline_Trace ----------------------------
(***************************************************************************)
(* Chained runs of the package's own four stages on generated references,  *)
(* with the cluster centroids as the query.  One NDJSON line per           *)
(* observation:                                                            *)
(*  kind "artefacts": {"st":{genes,clusters,leaves}, "rm":{genes,pairs,    *)
(*        stats_path_ok}, "lk":{keys,genes}, "mp":{used,levels},           *)
(*        "parents":[..], "qgenes":[..], "hier":[..]}                      *)
(*  kind "centroid": {"q":[..], "own":l, "M":[[leaf,[..]],..],             *)
(*        "draws":[[pos,..],..], "child":c, "B":B, "out":{"a","k","one"}}  *)
(* Clause numbers 18xx.                                                    *)
(***************************************************************************)
EXTENDS Pipeline, TLC, Json, IOUtils
Traces == ndJsonDeserialize(IOEnv.TRACE_FILE)
N == Len(Traces)
VARIABLES tid, l
vars == <<tid, l>>
Err(t) ==
    IF t.kind = "artefacts" THEN
        PipelineErr([genes |-> t.st.genes, clusters |-> Rng(t.st.clusters), leaves |-> Rng(t.st.leaves)],
                    [genes |-> t.rm.genes, pairs |-> {<<t.rm.pairs[i][1], t.rm.pairs[i][2]>> : i \in 1..Len(t.rm.pairs)},
                     stats_path_ok |-> t.rm.stats_path_ok],
                    [keys |-> Rng(t.lk.keys), genes |-> Rng(t.lk.genes)],
                    [used |-> Rng(t.mp.used), levels |-> t.mp.levels],
                    Rng(t.parents), Rng(t.qgenes), t.hier)
    ELSE IF t.kind = "centroid" THEN
        LET M == [lf \in {t.M[i][1] : i \in 1..Len(t.M)} |-> t.M[CHOOSE i \in 1..Len(t.M) : t.M[i][1] = lf][2]]
            draws == [d \in 1..Len(t.draws) |-> {t.draws[d][i] + 1 : i \in 1..Len(t.draws[d])}]
        IN CentroidErr(t.q, t.own, M, draws, t.child, t.B, [a |-> t.out.a, k |-> t.out.k, one |-> t.out.one])
    ELSE 1899
\* registers 1..N progress, N+1..2N clause, 2N+1..3N whether the premise held (evidence)
ASSUME \A i \in 1..(2 * N) : TLCSet(i, 0)
Init == tid \in 1..N /\ l = 1
Step == /\ l = 1
        /\ LET c == Err(Traces[tid]) IN
           IF c = 0 THEN l' = 2 /\ UNCHANGED tid ELSE TLCSet(N + tid, c) /\ FALSE
Spec == Init /\ [][Step]_vars
Track == IF TLCGet(tid) < l THEN TLCSet(tid, l) ELSE TRUE
Report == \A i \in 1..N : PrintT(<<"VERDICT", i, TLCGet(i), 2, TLCGet(N + i)>>)
\* which centroid observations are inside the claim (premise holds): printed for the evidence
PremiseHolds(t) == t.kind = "centroid" /\
    LET M == [lf \in {t.M[i][1] : i \in 1..Len(t.M)} |-> t.M[CHOOSE i \in 1..Len(t.M) : t.M[i][1] = lf][2]]
        draws == [d \in 1..Len(t.draws) |-> {t.draws[d][i] + 1 : i \in 1..Len(t.draws[d])}]
    IN Premise(t.q, t.own, M, draws)
ReportPremise == PrintT(<<"PREMISE", Cardinality({i \in 1..N : PremiseHolds(Traces[i])}),
                          Cardinality({i \in 1..N : Traces[i].kind = "centroid"})>>)
=============================================================================
