---------------------------- MODULE Pipeline_Trace ----------------------------
(***************************************************************************)
(* Chained runs of the package's own four stages on generated references,  *)
(* with the cluster centroids as the query.  One NDJSON line per           *)
(* observation:                                                            *)
(*  kind "artefacts": {"st":{genes,clusters,leaves}, "rm":{genes,pairs,idx, *)
(*        back}, "lk":{keys,genes}, "mp":{used,levels}, "nleaves":n,       *)
(*        "parents":[..], "qgenes":[..], "hier":[..]}                      *)
(*  kind "centroid": {"own":l, "B":B, "path":[..], "assigned":[..],         *)
(*        "visits":[{"q":[..], "M":[[leaf,[..]],..], "draws":[[pos,..],..],*)
(*                   "child":c, "out":{"a","k","one"}}, ..]}               *)
(* Clause numbers 18xx.                                                    *)
(***************************************************************************)
EXTENDS Pipeline, TLC, Json, IOUtils
Traces == ndJsonDeserialize(IOEnv.TRACE_FILE)
N == Len(Traces)
VARIABLES tid, l
vars == <<tid, l>>
Visits(t) == [i \in 1..Len(t.visits) |->
    LET v == t.visits[i] IN
    [q |-> v.q,
     M |-> [lf \in {v.M[j][1] : j \in 1..Len(v.M)} |-> v.M[CHOOSE j \in 1..Len(v.M) : v.M[j][1] = lf][2]],
     draws |-> [d \in 1..Len(v.draws) |-> {v.draws[d][j] + 1 : j \in 1..Len(v.draws[d])}],
     child |-> v.child, out |-> [a |-> v.out.a, k |-> v.out.k, one |-> v.out.one]]]
Err(t) ==
    IF t.kind = "artefacts" THEN
        PipelineErr([genes |-> t.st.genes, clusters |-> Rng(t.st.clusters), leaves |-> Rng(t.st.leaves)],
                    [genes |-> t.rm.genes, pairs |-> [i \in 1..Len(t.rm.pairs) |-> <<t.rm.pairs[i][1], t.rm.pairs[i][2]>>],
                     idx |-> t.rm.idx, back |-> t.rm.back],
                    [keys |-> Rng(t.lk.keys), genes |-> Rng(t.lk.genes)],
                    [used |-> Rng(t.mp.used), levels |-> t.mp.levels],
                    t.nleaves, Rng(t.parents), Rng(t.qgenes), t.hier)
    ELSE IF t.kind = "centroid" THEN CellErr(Visits(t), t.own, t.B, t.path, t.assigned)
    ELSE 1899
\* registers 1..N progress, N+1..2N clause, 2N+1..3N whether the premise held (evidence)
ASSUME \A i \in 1..(2 * N) : TLCSet(i, 0)
Init == tid \in 1..N /\ l = 1
Step == /\ l = 1
        /\ LET c == Err(Traces[tid]) IN
           IF c = 0 THEN l' = 2 /\ UNCHANGED tid ELSE TLCSet(N + tid, c) /\ FALSE
Spec == Init /\ [][Step]_vars
Track == IF TLCGet(tid) < l THEN TLCSet(tid, l) ELSE TRUE
\* evidence: how many of the node visits of centroid cells are inside the claim
InClaim == LET cs == {i \in 1..N : Traces[i].kind = "centroid"} IN
    PrintT(<<"CLAIMED",
             FoldSet(LAMBDA i, acc : acc + Cardinality(Claimed(Visits(Traces[i]), Traces[i].own)), 0, cs),
             FoldSet(LAMBDA i, acc : acc + Len(Traces[i].visits), 0, cs)>>)
Report == (\A i \in 1..N : PrintT(<<"VERDICT", i, TLCGet(i), 2, TLCGet(N + i)>>)) /\ InClaim
=============================================================================
