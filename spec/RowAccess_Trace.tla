--------------------------- MODULE RowAccess_Trace ---------------------------
(***************************************************************************)
(* (r0, r1) sequences yielded by the real row iterators against the        *)
(* iteration rule of RowAccess.tla.  One NDJSON line per iteration:        *)
(*   {"n": rows, "c": chunk size, "events": [{"r0","r1"}, ...]}            *)
(* an event with r0 = -1 is a random access made between two yields; its  *)
(* r1 says whether it returned the stored rows (1) or not (0).            *)
(* Clause numbers 5xx.                                                     *)
(***************************************************************************)
EXTENDS Integers, Sequences, TLC, Json, IOUtils
Traces == ndJsonDeserialize(IOEnv.TRACE_FILE)
N == Len(Traces)
VARIABLES tid, l, r0
vars == <<tid, l, r0>>
Ev == Traces[tid].events
Init == tid \in 1..N /\ l = 1 /\ r0 = 0
ASSUME \A i \in 1..(2 * N) : TLCSet(i, 0)
Min2(a, b) == IF a < b THEN a ELSE b
Next == /\ l <= Len(Ev) /\ l' = l + 1 /\ UNCHANGED tid
        /\ LET e == Ev[l] n == Traces[tid].n c == Traces[tid].c IN
           IF e.r0 = -1                                                      \* a random access between two yields:
           THEN (IF e.r1 = 1 THEN UNCHANGED r0 ELSE TLCSet(N + tid, 505) /\ FALSE)   \* right values, cursor not moved
           ELSE IF ~(r0 < n) THEN TLCSet(N + tid, 501) /\ FALSE                  \* yields after the end
           ELSE IF ~(e.r0 = r0) THEN TLCSet(N + tid, 502) /\ FALSE          \* not contiguous / out of order
           ELSE IF ~(e.r1 = Min2(n, r0 + c)) THEN TLCSet(N + tid, 503) /\ FALSE   \* wrong chunk length
           ELSE r0' = e.r1
Spec == Init /\ [][Next]_vars
\* a finished iteration must have covered every row
Complete == (l = Len(Ev) + 1) => r0 = Traces[tid].n
Track == IF Complete THEN (IF TLCGet(tid) < l THEN TLCSet(tid, l) ELSE TRUE)
         ELSE TLCSet(N + tid, 504) /\ FALSE
Report == \A i \in 1..N : PrintT(<<"VERDICT", i, TLCGet(i), Len(Traces[i].events) + 1, TLCGet(N + i)>>)
=============================================================================
