SPECIFICATION Spec
CONSTANTS NC = 4 B = 4 NG = 1 NL = 1 V = 0
INVARIANT ContractHolds
INVARIANT VotesAccepted
INVARIANT WrongRefused
CHECK_DEADLOCK FALSE
