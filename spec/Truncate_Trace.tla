-------------------------- MODULE Truncate_Trace --------------------------
(***************************************************************************)
(* Real histories of truncate_precomputed_stats_file against Truncate.tla. *)
(* One NDJSON line per history:                                            *)
(*  {"tree": TreeJson of the first file, "f": [[leaf, [numbers]]],         *)
(*   "events": [{"H": [levels], "ok": bool, "kind": str,                   *)
(*               "tree": TreeJson of the written file (ok only),           *)
(*               "stats": [[leaf, [numbers]]], "rowsok": bool,             *)
(*               "namesok": bool, "untouched": bool}]}                     *)
(* Every accepted request makes its output the file of the next request.   *)
(* Clause numbers 26xx.                                                    *)
(***************************************************************************)
EXTENDS Truncate, TLC, Json, IOUtils
Traces == ndJsonDeserialize(IOEnv.TRACE_FILE)
N == Len(Traces)
VARIABLES tid, l, cur, cf
vars == <<tid, l, cur, cf>>
SRng(s) == {s[i] : i \in 1..Len(s)}
PosIn(s, x) == CHOOSE i \in 1..Len(s) : s[i] = x
PairFun(ps) == [n \in {ps[i][1] : i \in 1..Len(ps)} |-> ps[CHOOSE i \in 1..Len(ps) : ps[i][1] = n][2]]
TreeOf(j) ==
    [hier  |-> j.hier, keys |-> SRng(j.keys),
     nodes |-> [lv \in SRng(j.hier) |-> SRng(j.nodes[PosIn(j.hier, lv)])],
     kids  |-> [lv \in SRng(j.hier) |-> LET pf == PairFun(j.kids[PosIn(j.hier, lv)]) IN
                                        [n \in DOMAIN pf |-> SRng(pf[n])]],
     cells |-> LET pf == PairFun(j.cells) IN [n \in DOMAIN pf |-> SRng(pf[n])]]
StatsOf(ps) == PairFun(ps)

Err(e) ==
    LET o == Outcome(cur, e.H) IN
    IF e.ok # (o = "ok") THEN 2601                      \* accepted / refused against the rule
    ELSE IF ~e.ok THEN (IF e.kind # o THEN 2602          \* refused for another reason
                        ELSE IF ~e.untouched THEN 2608   \* a refused request wrote something / changed its input
                        ELSE 0)
    ELSE LET nt == NewTree(cur, e.H)
             ot == TreeOf(e.tree)
         IN  IF ot.hier # nt.hier \/ ot.keys # nt.keys THEN 2603
             ELSE IF ot.nodes # nt.nodes THEN 2603
             ELSE IF ot.kids # nt.kids THEN 2604
             ELSE IF ot.cells # nt.cells THEN 2605
             ELSE IF StatsOf(e.stats) # NewStats(cur, e.H, cf) THEN 2606
             ELSE IF ~e.rowsok THEN 2607                \* row table is not a bijection new leaves -> 0..n-1
             ELSE IF ~e.namesok THEN 2609               \* data sets / gene names / request record differ
             ELSE IF ~e.untouched THEN 2608             \* the input file changed
             ELSE 0

ASSUME \A i \in 1..(2 * N) : TLCSet(i, 0)
Init == /\ tid \in 1..N /\ l = 1
        /\ cur = TreeOf(Traces[tid].tree) /\ cf = StatsOf(Traces[tid].f)
Step == /\ l <= Len(Traces[tid].events)
        /\ LET e == Traces[tid].events[l]
               c == Err(e) IN
           IF c = 0
           THEN /\ l' = l + 1 /\ UNCHANGED tid
                /\ IF e.ok THEN cur' = NewTree(cur, e.H) /\ cf' = NewStats(cur, e.H, cf)
                           ELSE UNCHANGED <<cur, cf>>
           ELSE TLCSet(N + tid, c) /\ FALSE
Spec == Init /\ [][Step]_vars
Track == IF TLCGet(tid) < l THEN TLCSet(tid, l) ELSE TRUE
Report == \A i \in 1..N : PrintT(<<"VERDICT", i, TLCGet(i), Len(Traces[i].events) + 1, TLCGet(N + i)>>)
=============================================================================
