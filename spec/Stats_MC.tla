------------------------------- MODULE Stats_MC -------------------------------
(***************************************************************************)
(* Exhaustive check of Stats.tla for small datasets: every assignment of   *)
(* values, labels (incl. unlabelled cells and clusters of one cell) and    *)
(* files, every chunk size and worker count.                               *)
(***************************************************************************)
EXTENDS Stats, Json
CONSTANTS NCells, NCl, NF, V, MaxR, MaxP
VARIABLES vec, lab, fil, R, P
vars == <<vec, lab, fil, R, P>>
Unset == [i \in {0} |-> 0]
\* the vectors are chosen by an action so that the workers share the enumeration
Init == /\ lab \in [1..NCells -> 0..NCl] /\ fil \in [1..NCells -> 1..NF]
        /\ R \in 1..MaxR /\ P \in 1..MaxP /\ vec = Unset
Pick == /\ vec = Unset /\ vec' \in [1..NCells -> [1..1 -> 0..V]] /\ UNCHANGED <<lab, fil, R, P>>
Spec == Init /\ [][Pick]_vars
Ready == vec # Unset
MergedIsDirect == Ready => \A k \in 1..NCl : Merged(vec, lab, fil, NF, R, P, k, 1) = Direct(vec, lab, k, 1)
Partition == SplitIsPartition(lab, fil, NF, R, P)
\* collapsing clusters {1,2} -> class 1, others -> class 2 equals the statistics of the coarse labels
Par == [k \in 1..NCl |-> IF k <= 2 THEN 1 ELSE 2]
TruncationIsCoarse == Ready => \A K \in {1, 2} :
    Truncated(vec, lab, Par, K, 1) = Direct(vec, CoarseLab(lab, Par), K, 1)
=============================================================================
