------------------------------ MODULE Runners ------------------------------
(***************************************************************************)
(* The command-line layer (cell_type_mapper/cli): what the runner classes  *)
(* add on top of the stage functions.                                      *)
(*                                                                         *)
(* 1. ReferenceMarkerRunner.create_input_to_output_map: one output file    *)
(*    per statistics file, named after the input's extension chain:        *)
(*    <stem><rest>  ->  reference_markers[.<salt>]<rest>  in output_dir.   *)
(*    The salt is one counter for the whole call: None until the first     *)
(*    clash, then 0, 1, ... and it STAYS set for every later input.        *)
(*    The map is keyed by the input path text, so a path listed twice      *)
(*    keeps the name it was given last.  The call refuses when a target    *)
(*    exists and is not a file, or exists and clobber is off, or cannot    *)
(*    be created.                                                          *)
(* 2. OnTheFlyMapper.run: reference markers -> query markers -> mapping    *)
(*    inside a private scratch directory that is removed whatever          *)
(*    happens; the extended result then records the on-the-fly             *)
(*    configuration instead of the mapping stage's.                        *)
(***************************************************************************)
EXTENDS Integers, Sequences, FiniteSets, TLC

NoSalt == -1
SRng(s) == {s[i] : i \in 1..Len(s)}

\* ------------------------------------------------------------------ 1. output names
\* an input is [path |-> id of the path text, rest |-> id of the extension chain]; a name is <<salt, rest>>
NextSalt(s) == IF s = NoSalt THEN 0 ELSE s + 1
\* the salt with which the name is free: the current one, else the following ones in turn
RECURSIVE FreeSalt(_, _, _)
FreeSalt(s, rest, used) == IF <<s, rest>> \notin used THEN s ELSE FreeSalt(NextSalt(s), rest, used)

RECURSIVE Walk(_, _, _, _)
\* returns the sequence of names given to the inputs, in order
Walk(inputs, i, salt, used) ==
    IF i > Len(inputs) THEN <<>>
    ELSE LET s == FreeSalt(salt, inputs[i].rest, used) IN
         <<<<s, inputs[i].rest>>>> \o Walk(inputs, i + 1, s, used \cup {<<s, inputs[i].rest>>})
Names(inputs) == Walk(inputs, 1, NoSalt, {})
\* the map as returned: path text -> name given at the LAST position at which the path is listed
OutMap(inputs) ==
    LET ns == Names(inputs) IN
    [p \in {inputs[i].path : i \in 1..Len(inputs)} |->
        ns[CHOOSE i \in 1..Len(inputs) : inputs[i].path = p /\ \A j \in (i + 1)..Len(inputs) : inputs[j].path # p]]

\* existing : [name -> "file" | "dir"] for the names already present in output_dir; dirOK : output_dir exists
NameOutcome(inputs, existing, clobber, dirOK) ==
    LET targets == {OutMap(inputs)[p] : p \in DOMAIN OutMap(inputs)} IN
    IF \E t \in targets : t \in DOMAIN existing /\ existing[t] = "dir" THEN "refused"
    ELSE IF ~clobber /\ \E t \in targets : t \in DOMAIN existing THEN "refused"
    ELSE IF ~dirOK THEN "refused"
    ELSE "ok"

\* what a user relies on
Injective(inputs) == \A p, q \in DOMAIN OutMap(inputs) : p # q => OutMap(inputs)[p] # OutMap(inputs)[q]
KeepsRest(inputs) == \A i \in 1..Len(inputs) : Names(inputs)[i][2] = inputs[i].rest
SaltMonotone(inputs) == \A i \in 1..(Len(inputs) - 1) : Names(inputs)[i][1] <= Names(inputs)[i + 1][1]
FirstUnsalted(inputs) == Len(inputs) > 0 => Names(inputs)[1][1] = NoSalt
AllDistinct(inputs) == \A i, j \in 1..Len(inputs) : i # j => Names(inputs)[i] # Names(inputs)[j]

\* ------------------------------------------------------------------ 2. the on-the-fly run
\* steps in order; a step may fail; the scratch directory created at the start is removed in every case
Steps == <<"mktmp", "refdir", "refmarkers", "qmarkers", "mapping", "patch", "cleanup">>

\* ------------------------------------------------------------------ 3. the validation runner (cli/validate_h5ad.py)
\* The validation function either writes a new file (something had to change) or reports that nothing has to.  The
\* runner names the valid file: the written one; else a COPY of the input at valid_h5ad_path when that destination was
\* given; else the input itself.  Written files and copies carry the number of mapped genes in uns; a copy of a file
\* that already carries the number keeps it.  Validating a valid file again changes nothing - unless it holds
\* unmappable genes (see below).
None3 == -1
ValidKind(change, dest) == IF change THEN "written" ELSE IF dest = "valid_path" THEN "copy" ELSE "input"
\* file state: [fixed : the content is already valid, unk : it holds genes that cannot be mapped, rec : recorded number
\* or None3].  Placeholder names of unmappable genes carry the time of the validation (to the second): validating such a
\* file again in another second renames them and therefore writes a new file - `rewrite` is that (clock-dependent) choice;
\* it is open only for files with unmappable genes.
AfterValidate(f, dest, nmapped, rewrite) ==
    LET change == ~f.fixed \/ (f.unk /\ rewrite) IN
    [kind |-> ValidKind(change, dest),
     file |-> [fixed |-> TRUE, unk |-> f.unk,
               rec |-> IF change THEN nmapped
                       ELSE IF f.rec # None3 THEN f.rec
                       ELSE IF dest = "valid_path" THEN nmapped ELSE None3]]

\* ------------------------------------------------------------------ 4. the ABC statistics runner (cli/precompute_stats_abc.py)
\* With split_by_dataset and a dataset_label column one statistics file is written per dataset label,
\* <stem>.<label with " " -> "_" and "/" -> "."><suffix>, plus <stem>.combined<suffix> holding their merge (see below); otherwise
\* one file at output_path.  Refused: two labels with one file name; a dataset called "combined" (its file would be the
\* merged one); an existing target without clobber.  A label is a sequence of characters.
SanChar(c) == IF c = " " THEN "_" ELSE IF c = "/" THEN "." ELSE c
San(l) == [i \in 1..Len(l) |-> SanChar(l[i])]
Combined == <<"c", "o", "m", "b", "i", "n", "e", "d">>
DatasetOutcome(labels) ==
    IF \E a, b \in labels : a # b /\ San(a) = San(b) THEN "refused"
    ELSE IF Combined \in labels THEN "refused"
    ELSE IF \E a \in labels : San(a) = Combined THEN "refused"      \* its file name is the merged file's
    ELSE "ok"
\* the files of an accepted call: one per label and the merged one
DatasetFiles(labels) == [l \in labels |-> San(l)]
\* The merged file (merge_precompute_files) does NOT add the datasets up: every cluster keeps the row of the ONE file in
\* which it has the most cells.  files : sequence in path order of [total, n : cluster -> cells].  The file with the
\* largest total (first such) is the base; the others, in order, replace a cluster's row only where they hold strictly
\* more cells than the row held so far.
BaseOf(files) == CHOOSE i \in 1..Len(files) :
                    /\ \A j \in 1..Len(files) : files[j].total <= files[i].total
                    /\ \A j \in 1..(i - 1) : files[j].total < files[i].total
RECURSIVE PickFrom(_, _, _, _, _)
\* cur : index of the file whose row the cluster holds so far
PickFrom(files, c, base, i, cur) ==
    IF i > Len(files) THEN cur
    ELSE IF i # base /\ files[i].n[c] > files[cur].n[c] THEN PickFrom(files, c, base, i + 1, i)
    ELSE PickFrom(files, c, base, i + 1, cur)
Picked(files, c) == PickFrom(files, c, BaseOf(files), 1, BaseOf(files))
\* what a user relies on: the merged row is a row of a file with the maximal number of cells of that cluster
PickIsMax(files, c) == \A j \in 1..Len(files) : files[j].n[c] <= files[Picked(files, c)].n[c]

\* ------------------------------------------------------------------ 5. back pointers (utils/config_utils.py)
\* A reference-marker file (a p-value mask) names the statistics file it was computed from.  The stage that needs the
\* statistics uses that path if a file is there; else - only when searching is allowed - a file of the same NAME in the
\* directory of the file that holds the pointer; else the run stops naming both files.
Resolve(childExists, doSearch, altExists) ==
    IF childExists THEN "child" ELSE IF doSearch /\ altExists THEN "alt" ELSE "missing"
=============================================================================
