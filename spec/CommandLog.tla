----------------------------- MODULE CommandLog -----------------------------
(***************************************************************************)
(* The log object every command-line tool of the package carries          *)
(* (cli/cli_log.py: CommandLog) and writes next to its results.            *)
(* Extension suite X16.                                                    *)
(*                                                                         *)
(* State: the lines held in memory (tag + message token), the lines of the *)
(* log file on disk, what was printed and how many warnings were issued.   *)
(* Message tokens: "m" an ordinary message, "p" a message naming an        *)
(* absolute path that exists on the host, "s" the same message with the    *)
(* path cut down to its last component (what a cloud-safe write stores).   *)
(*                                                                         *)
(* Modelled as the code behaves (named deviations from the ideal):         *)
(*  - WriteAppends: write_log opens the file in append mode and does not   *)
(*    clear the memory, so a second write repeats every earlier line;      *)
(*  - ErrorLeavesNoLine: error() raises and records nothing.               *)
(***************************************************************************)
EXTENDS Integers, Sequences, SequencesExt, FiniteSets

CONSTANTS Msgs, MaxOps

VARIABLES mem,      \* sequence of [t, m]: lines held in memory
          file,     \* sequence of [t, m]: lines of the log file
          blocks,   \* history: one <<length, cloud_safe>> per write
          printed,  \* number of lines printed to stdout
          warned,   \* number of Python warnings issued
          nops, last
vars == <<mem, file, blocks, printed, warned, nops, last>>

Tags == {"plain", "ENV", "WARNING", "BENCHMARK"}
Line(t, m) == [t |-> t, m |-> m]
San(e) == IF e.m = "p" THEN [e EXCEPT !.m = "s"] ELSE e
SanSeq(s) == [i \in 1..Len(s) |-> San(s[i])]

Init == mem = <<>> /\ file = <<>> /\ blocks = <<>> /\ printed = 0 /\ warned = 0 /\ nops = 0 /\ last = "init"

Record(t, m, pr, wn) ==
    /\ nops < MaxOps
    /\ mem' = Append(mem, Line(t, m))
    /\ printed' = printed + pr /\ warned' = warned + wn
    /\ nops' = nops + 1 /\ last' = "ok"
    /\ UNCHANGED <<file, blocks>>

AddMsg(m)    == Record("plain", m, 0, 0)          \* silent
Info(m)      == Record("plain", m, 1, 0)          \* printed
Env(m)       == Record("ENV", m, 1, 0)
Benchmark(m) == Record("BENCHMARK", m, 1, 0)
Warn(m)      == Record("WARNING", m, 0, 1)        \* warning, not printed
Error(m)     == /\ nops < MaxOps /\ nops' = nops + 1 /\ last' = "raised"
                /\ UNCHANGED <<mem, file, blocks, printed, warned>>
Write(cs)    == /\ nops < MaxOps /\ nops' = nops + 1 /\ last' = "ok"
                /\ file' = file \o (IF cs THEN SanSeq(mem) ELSE mem)
                /\ blocks' = Append(blocks, <<Len(mem), cs>>)
                /\ UNCHANGED <<mem, printed, warned>>

Next == \/ \E m \in Msgs : AddMsg(m) \/ Info(m) \/ Env(m) \/ Benchmark(m) \/ Warn(m) \/ Error(m)
        \/ \E cs \in BOOLEAN : Write(cs)
Spec == Init /\ [][Next]_vars

\* ------------------------------------------------------------------ properties
\* nothing recorded is ever lost or rewritten, in memory or on disk
AppendOnly == [][IsPrefix(mem, mem') /\ IsPrefix(file, file')]_vars
\* the file is exactly the writes, each the whole memory of that moment
RECURSIVE Expect(_)
Expect(k) == IF k = 0 THEN <<>>
             ELSE Expect(k - 1) \o (IF blocks[k][2] THEN SanSeq(SubSeq(mem, 1, blocks[k][1]))
                                    ELSE SubSeq(mem, 1, blocks[k][1]))
FileIsWrites == file = Expect(Len(blocks))
\* a cloud-safe write never stores a host path
RECURSIVE Offset(_)
Offset(k) == IF k = 0 THEN 0 ELSE Offset(k - 1) + blocks[k][1]
CloudSafeBlocksClean == \A k \in 1..Len(blocks) : blocks[k][2] =>
                            \A i \in (Offset(k - 1) + 1)..Offset(k) : file[i].m # "p"
\* every warning and every printed line is also in memory
Accounted == /\ warned = Cardinality({i \in 1..Len(mem) : mem[i].t = "WARNING"})
             /\ printed <= Len(mem) - warned
\* an error is never swallowed and never half-recorded
ErrorRaises == [][(\E m \in Msgs : Error(m)) => last' = "raised" /\ mem' = mem]_vars
=============================================================================
