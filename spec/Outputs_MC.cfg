SPECIFICATION Spec
CONSTANTS NN = 3 K = 2 B = 3
INVARIANT RoundTrip
INVARIANT Round4Close
CHECK_DEADLOCK FALSE
