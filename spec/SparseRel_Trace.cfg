SPECIFICATION TSpec
CONSTANTS NP = 2 NG = 3 MaxOps = 99 MaxKeep = 3
CONSTRAINT Track
POSTCONDITION Report
CHECK_DEADLOCK FALSE
