---------------------------- MODULE Evaluate_MC ----------------------------
(***************************************************************************)
(* The scoring as the code performs it - one cell after the other, a       *)
(* running aggregate probability and, per correlation cut, a flag "an      *)
(* ancestor level already failed" - against the definitions of Evaluate.   *)
(***************************************************************************)
EXTENDS Evaluate, TLC

CONSTANTS L, Nodes, B, MaxCells, CorrVals, Cuts

MCCuts == {<<"p", 0, 1>>, <<"p", 1, 2>>, <<"p", 3, 4>>, <<"c", 5>>}
Cells == [truth : [1..L -> Nodes], asg : [1..L -> Nodes], k : [1..L -> 0..B], corr : [1..L -> CorrVals]]

VARIABLES cells, tp, fn, fp
vars == <<cells, tp, fn, fp>>
Zero == [lev \in 1..L |-> [c \in Cuts |-> [n \in Nodes |-> 0]]]
Init == cells = <<>> /\ tp = Zero /\ fn = Zero /\ fp = Zero

\* the code's walk down the levels of one cell: `passed` is ancestor_passed_corr
RECURSIVE WalkCounted(_, _, _, _)
WalkCounted(cell, lev, cut, j) ==        \* for a correlation cut: counted at lev iff no level 1..lev fails
    IF j > lev THEN TRUE
    ELSE IF cell.corr[j] < cut[2] THEN FALSE ELSE WalkCounted(cell, lev, cut, j + 1)
CodeCounted(cell, lev, cut) ==
    IF cut[1] = "p" THEN ~(Prod(cell.k, lev) * cut[3] < cut[2] * Pow(B, lev)) ELSE WalkCounted(cell, lev, cut, 1)

Add(cell) ==
    /\ Len(cells) < MaxCells /\ cells' = Append(cells, cell)
    /\ tp' = [lev \in 1..L |-> [c \in Cuts |-> [n \in Nodes |->
                tp[lev][c][n] + (IF n = cell.truth[lev] /\ IsTrue(cell, lev) /\ CodeCounted(cell, lev, c) THEN 1 ELSE 0)]]]
    /\ fn' = [lev \in 1..L |-> [c \in Cuts |-> [n \in Nodes |->
                fn[lev][c][n] + (IF n = cell.truth[lev] /\ ~(IsTrue(cell, lev) /\ CodeCounted(cell, lev, c)) THEN 1 ELSE 0)]]]
    /\ fp' = [lev \in 1..L |-> [c \in Cuts |-> [n \in Nodes |->
                fp[lev][c][n] + (IF n = cell.asg[lev] /\ ~IsTrue(cell, lev) /\ CodeCounted(cell, lev, c) THEN 1 ELSE 0)]]]
Next == \E cell \in Cells : Add(cell)
Spec == Init /\ [][Next]_vars

All == {<<lev, c, n>> : lev \in 1..L, c \in Cuts, n \in Nodes}
InvAgrees == \A x \in All : /\ tp[x[1]][x[2]][x[3]] = TP(cells, x[1], x[2], B, x[3])
                            /\ fn[x[1]][x[2]][x[3]] = FN(cells, x[1], x[2], B, x[3])
                            /\ fp[x[1]][x[2]][x[3]] = FP(cells, x[1], x[2], B, x[3])
\* every cell is the true positive or the false negative of its true node, exactly once
InvPartition == \A lev \in 1..L, c \in Cuts, n \in Nodes : tp[lev][c][n] + fn[lev][c][n] = NCells(cells, lev, n)
\* a false positive is somebody's false negative
InvFPleFN == \A lev \in 1..L, c \in Cuts : TotFP(cells, lev, c, B, Nodes) <= TotFN(cells, lev, c, B, Nodes)
\* a correlation cut that stops a cell at a level stops it at every finer level
InvCorrDown == \A i \in 1..Len(cells), c \in Cuts, lev \in 1..(L - 1) :
                  c[1] = "c" /\ ~Counted(cells[i], lev, c, B) => ~Counted(cells[i], lev + 1, c, B)
\* the aggregate probability only shrinks down the hierarchy, so does what a probability cut lets through
InvProbDown == \A i \in 1..Len(cells), c \in Cuts, lev \in 1..(L - 1) :
                  c[1] = "p" /\ ~Counted(cells[i], lev, c, B) => ~Counted(cells[i], lev + 1, c, B)
InvMicroRange == \A lev \in 1..L, c \in Cuts : LET m == Micro(cells, lev, c, B, Nodes) IN 0 <= m[1] /\ m[1] <= m[2]
=============================================================================
