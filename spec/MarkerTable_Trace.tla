-------------------------- MODULE MarkerTable_Trace --------------------------
(***************************************************************************)
(* Validation of observed marker reconciliations against MarkerTable.tla.  *)
(* One NDJSON line per call of create_marker_cache_from_specified_markers  *)
(* (+ serialize_markers) on a random taxonomy / table / query gene set:    *)
(*  {"tree", "drop", "flat", "table":[[[lev,node],[genes]]..], "qg", "rg", *)
(*   "minm", "outcome": "ok"|"error", "genes":[[[lev,node],[genes]]..],    *)
(*   "paired": bool}                                                       *)
(* Each line is one single-step behaviour; the step is enabled iff the     *)
(* observation is what the spec allows.  Clause numbers 81x (C08).         *)
(***************************************************************************)
EXTENDS MarkerTable, TLC, Json, IOUtils

Traces == ndJsonDeserialize(IOEnv.TRACE_FILE)
N == Len(Traces)
VARIABLES tid, l
vars == <<tid, l>>
Rng(s) == {s[i] : i \in 1..Len(s)}

TreeOf(j) ==
    LET L == Len(j.hier)
        idx(lv) == CHOOSE i \in 1..L : j.hier[i] = lv
        lv == Rng(j.keys)
    IN [hier  |-> j.hier, keys |-> lv,
        nodes |-> [x \in lv |-> Rng(j.nodes[idx(x)])],
        kids  |-> [x \in lv |-> [n \in Rng(j.nodes[idx(x)]) |->
                     LET e == CHOOSE i \in 1..Len(j.kids[idx(x)]) : j.kids[idx(x)][i][1] = n
                     IN Rng(j.kids[idx(x)][e][2])]],
        cells |-> [n \in Rng(j.nodes[L]) |-> {}]]

TableOf(t) == [p \in {<<t[i][1][1], t[i][1][2]>> : i \in 1..Len(t)} |->
                 Rng(t[CHOOSE i \in 1..Len(t) : <<t[i][1][1], t[i][1][2]>> = p][2])]

Err(j) ==
    LET T == TreeOf(j.tree)
        T1 == IF j.drop # 0 /\ j.drop \in Levels(T) /\ CanDrop(T, j.drop) THEN DropLevel(T, j.drop) ELSE T
        R == IF j.flat THEN Flatten(T1) ELSE T1
        tb0 == TableOf(j.table)
        tb == IF j.flat THEN FlattenTable(tb0) ELSE tb0
        qg == Rng(j.qg)
        errs == RunErrors(R, tb, qg, Rng(j.rg), j.minm)
        rec == Reconcile(R, tb, qg, j.minm)
        got == TableOf(j.genes)
        single == AllParentsOf(R) \ ChoiceParents(R)
    IN IF errs # {} /\ j.outcome = "ok" THEN 810
       ELSE IF errs = {} /\ j.outcome = "error" /\ ~MayFail(R, tb, qg) /\ ~MayFail0(R, tb, qg, j.minm) THEN 811
       ELSE IF j.outcome = "error" THEN 0
       ELSE IF ~(\A p \in DOMAIN rec : p \in DOMAIN got /\ got[p] = rec[p]) THEN 812
       ELSE IF ~(\A p \in (DOMAIN got) \cap single : p = Root \/ got[p] = {}) THEN 813
       ELSE IF ~j.paired THEN 814      \* query/reference columns paired by name (projection)
       ELSE 0

ASSUME \A i \in 1..(2 * N) : TLCSet(i, 0)
Init == tid \in 1..N /\ l = 1
Step == /\ l = 1
        /\ LET c == Err(Traces[tid]) IN
           IF c = 0 THEN l' = 2 /\ UNCHANGED tid ELSE TLCSet(N + tid, c) /\ FALSE
Spec == Init /\ [][Step]_vars
Track == IF TLCGet(tid) < l THEN TLCSet(tid, l) ELSE TRUE
Report == \A i \in 1..N : PrintT(<<"VERDICT", i, TLCGet(i), 2, TLCGet(N + i)>>)
=============================================================================
