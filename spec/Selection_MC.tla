----------------------------- MODULE Selection_MC -----------------------------
(***************************************************************************)
(* The selection loop as a state machine over every marker table           *)
(* (NP pairs x NG genes x {none, up, down}) and every tie-break of the     *)
(* greedy choice: the coverage guarantee of C12 is a theorem of the        *)
(* algorithm (with one gene chosen per update, genes_at_a_time = 1).       *)
(***************************************************************************)
EXTENDS Selection
CONSTANTS NP, NG, Nper
Pairs == 1..NP
Genes == 1..NG
VARIABLES table, chosen, filled, phase
vars == <<table, chosen, filled, phase>>
Unset == [p \in {0} |-> 0]
Init == table = Unset /\ chosen = {} /\ filled = {} /\ phase = "pick"
Pick == /\ phase = "pick" /\ table' \in [Pairs -> [Genes -> {0, 1, 2}]] /\ phase' = "first"
        /\ UNCHANGED <<chosen, filled>>
First == /\ phase = "first" /\ filled' = NewFilled(table, Pairs, Genes, Nper, chosen, filled)
         /\ phase' = "desperate" /\ UNCHANGED <<table, chosen>>
Desperate == /\ phase = "desperate"
             /\ chosen' = chosen \cup DesperateGenes(table, Pairs, Genes, Nper)
             /\ phase' = "update" /\ UNCHANGED <<table, filled>>
Update == /\ phase = "update" /\ filled' = NewFilled(table, Pairs, Genes, Nper, chosen, filled)
          /\ phase' = "decide" /\ UNCHANGED <<table, chosen>>
Decide == /\ phase = "decide"
          /\ IF MaxUtil(table, Pairs, Genes, chosen, filled) <= 0 \/ AllFilled(Pairs, filled)
             THEN phase' = "done" /\ UNCHANGED chosen
             ELSE \E g \in Genes : /\ Util(table, Pairs, chosen, filled, g) = MaxUtil(table, Pairs, Genes, chosen, filled)
                                   /\ chosen' = chosen \cup {g} /\ phase' = "update"
          /\ UNCHANGED <<table, filled>>
Next == Pick \/ First \/ Desperate \/ Update \/ Decide
Spec == Init /\ [][Next]_vars
Ready == phase # "pick"
CoverageAtDone == phase = "done" => Coverage(table, Pairs, Genes, Nper, chosen)
AlwaysUseful == Ready => Useful(table, Pairs, chosen)
AllFilledAtDone == phase = "done" => AllFilled(Pairs, filled)
\* a filled slot never needs another gene: filling is monotone and justified
FilledJustified == Ready => \A s \in filled :
     \/ Count(table, chosen, s[1], s[2]) >= Nper
     \/ Count(table, chosen, s[1], s[2]) = Census(table, Genes, s[1], s[2])
     \/ Agg(table, chosen, s[1]) >= 2 * Nper
=============================================================================
