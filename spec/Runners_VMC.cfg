SPECIFICATION Spec
CONSTANTS MaxRuns = 3 NMapped = 2
INVARIANT InvFixedPoint
INVARIANT InvRecordStable
INVARIANT InvWrittenOnce
INVARIANT InvRecordTrue
CONSTRAINT Emit
CHECK_DEADLOCK FALSE
