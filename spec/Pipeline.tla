------------------------------- MODULE Pipeline -------------------------------
(***************************************************************************)
(* Composition of the stages: reference statistics -> reference markers -> *)
(* query marker selection -> mapping.  Each artefact carries name tables;  *)
(* a stage accepts an artefact when the names it needs resolve, and the    *)
(* stages must identify clusters and genes consistently BY NAME.           *)
(*                                                                         *)
(* Also the centroid lemma (C18): a query cell equal to the mean profile   *)
(* of leaf l is assigned, at every node p above l where a choice exists,   *)
(* to the child containing l, with all votes and correlation 1 - provided  *)
(* that on every drawn gene subset the profile is not constant and no      *)
(* other leaf below p is perfectly correlated with it.                     *)
(***************************************************************************)
EXTENDS Election, Sequences

Rng(s) == {s[i] : i \in 1..Len(s)}

(***************************************************************************)
(* Artefacts (names are strings; leaves are also numbered 1..nl by the     *)
(* observer, in an order of its own):                                      *)
(*  stats   : [genes : Seq, clusters : set of names addressed by the       *)
(*             cluster-to-row table, leaves : set of leaf names of the     *)
(*             taxonomy the reference was labelled with]                   *)
(*  refm    : [genes : Seq, pairs : Seq of <<i, j>> (i < j, leaf numbers), *)
(*             idx : Seq of the column numbers given to the pairs,         *)
(*             back : BOOLEAN (names the statistics file it came from)]    *)
(*  lookup  : [keys : set of parent keys, genes : set]                     *)
(*  mapping : [used : set of genes, levels : Seq]                          *)
(***************************************************************************)
StatsOK(st) == st.clusters = st.leaves /\ \A i, j \in 1..Len(st.genes) : i # j => st.genes[i] # st.genes[j]
AllPairs(nl) == {p \in (1..nl) \X (1..nl) : p[1] < p[2]}
RefMarkersOK(st, rm, nl) ==
    /\ rm.genes = st.genes                                   \* same genes, same order
    /\ rm.back                                               \* points back to the statistics file
    /\ Rng(rm.pairs) = AllPairs(nl)                          \* every unordered leaf pair ...
    /\ Len(rm.pairs) = Cardinality(AllPairs(nl))             \* ... exactly once
    /\ Len(rm.idx) = Len(rm.pairs)
    /\ Rng(rm.idx) = 0..(Len(rm.pairs) - 1)                  \* each with a column of its own
LookupOK(rm, lk, parents, qgenes) ==
    /\ lk.keys = parents                                     \* one entry per parent of the taxonomy
    /\ lk.genes \subseteq (Rng(rm.genes) \cap qgenes)        \* only genes known to both files
MappingOK(lk, mp, hier) ==
    /\ mp.used \subseteq lk.genes                            \* markers used were selected
    /\ Rng(mp.levels) = Rng(hier) /\ Len(mp.levels) = Len(hier)   \* every level reported once (also removed ones)

PipelineErr(st, rm, lk, mp, nl, parents, qgenes, hier) ==
    IF ~StatsOK(st) THEN 1801
    ELSE IF ~RefMarkersOK(st, rm, nl) THEN 1802
    ELSE IF ~LookupOK(rm, lk, parents, qgenes) THEN 1803
    ELSE IF ~MappingOK(lk, mp, hier) THEN 1804
    ELSE 0

(***************************************************************************)
(* Centroid claim for one query cell that equals the mean profile of leaf  *)
(* `own`.  visits : sequence (top-down) of the nodes with a choice on the  *)
(* path from the root to own, each                                         *)
(*   [q     : the cell's vector on the genes of the node (integer sums of  *)
(*            its own leaf: correlation is scale invariant),               *)
(*    M     : [leaf -> vector] of ALL leaves below the node, own included, *)
(*    draws : Seq of sets of positions (the logged bootstrap subsets),     *)
(*    child : the child of the node that holds own,                        *)
(*    out   : [a, k, one] reported winner, votes, and whether the reported *)
(*            average correlation is 1 within 1e-9]                        *)
(* path / assigned : expected and reported node per level of the taxonomy. *)
(* The claim covers a node only if the premise held at every node above    *)
(* it (otherwise the cell may legitimately have left the lineage).         *)
(***************************************************************************)
Premise(v, own) ==
    \A d \in 1..Len(v.draws) :
        /\ Var(v.q, v.draws[d]) > 0
        /\ \A b \in (DOMAIN v.M) \ {own} : ~CorrIsOne(v.q, v.M[b], v.draws[d])

\* the lemma in terms of the election of Election.tla: under the premise the own leaf is the
\* unique nearest centroid on every draw (checked exhaustively for small vectors by Pipeline_MC)
LemmaAt(q, M, own, S) ==
    (Var(q, S) > 0 /\ \A b \in (DOMAIN M) \ {own} : ~CorrIsOne(q, M[b], S)) => Best(q, M, S) = {own}

Claimed(visits, own) == {i \in 1..Len(visits) : \A j \in 1..i : Premise(visits[j], own)}
VisitErr(v, B) ==
    IF ~(v.out.a = v.child) THEN 1810                \* not assigned to its own lineage
    ELSE IF ~(v.out.k = B) THEN 1811                 \* bootstrapping probability below 1
    ELSE IF ~v.out.one THEN 1812                     \* average correlation not 1
    ELSE 0
CellErr(visits, own, B, path, assigned) ==
    LET cl == Claimed(visits, own)
        bad == {i \in cl : VisitErr(visits[i], B) # 0}
    IN  IF bad # {} THEN VisitErr(visits[CHOOSE i \in bad : \A j \in bad : i <= j], B)
        ELSE IF cl = 1..Len(visits) /\ assigned # path THEN 1813    \* some level (e.g. an only child) off the lineage
        ELSE 0
=============================================================================
