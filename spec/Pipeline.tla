------------------------------- MODULE Pipeline -------------------------------
(***************************************************************************)
(* Composition of the stages: reference statistics -> reference markers -> *)
(* query marker selection -> mapping.  Each artefact carries name tables;  *)
(* a stage accepts an artefact when the names it needs resolve, and the    *)
(* stages must identify clusters and genes consistently BY NAME.           *)
(*                                                                         *)
(* Also the centroid lemma (C18): a query cell equal to the mean profile   *)
(* of leaf l is assigned, at every node p above l where a choice exists,   *)
(* to the child containing l, with all votes and correlation 1 - provided  *)
(* that on every drawn gene subset the profile is not constant and no      *)
(* other leaf below p is perfectly correlated with it.                     *)
(***************************************************************************)
EXTENDS Election, Sequences

Rng(s) == {s[i] : i \in 1..Len(s)}

(***************************************************************************)
(* Artefacts (names are strings):                                          *)
(*  stats   : [genes : Seq, clusters : set, leaves : set (taxonomy)]       *)
(*  refm    : [genes : Seq, pairs : set of <<a, b>>, stats_path_ok : BOOL] *)
(*  lookup  : [keys : set of parent keys, genes : set]                     *)
(*  mapping : [parents : set, used : set of genes, levels : Seq]           *)
(***************************************************************************)
StatsOK(st) == st.clusters = st.leaves /\ \A i, j \in 1..Len(st.genes) : i # j => st.genes[i] # st.genes[j]
RefMarkersOK(st, rm) ==
    /\ rm.genes = st.genes                                   \* same genes, same order
    /\ rm.stats_path_ok                                      \* points back to the statistics file
    /\ rm.pairs = {p \in st.leaves \X st.leaves : p[1] < p[2]}   \* every unordered leaf pair once
LookupOK(rm, lk, parents, qgenes) ==
    /\ lk.keys = parents                                     \* one entry per parent of the taxonomy
    /\ lk.genes \subseteq (Rng(rm.genes) \cap qgenes)        \* only genes known to both files
MappingOK(lk, mp, hier) ==
    /\ mp.used \subseteq lk.genes                            \* markers used were selected
    /\ mp.levels = hier

PipelineErr(st, rm, lk, mp, parents, qgenes, hier) ==
    IF ~StatsOK(st) THEN 1801
    ELSE IF ~RefMarkersOK(st, rm) THEN 1802
    ELSE IF ~LookupOK(rm, lk, parents, qgenes) THEN 1803
    ELSE IF ~MappingOK(lk, mp, hier) THEN 1804
    ELSE 0

(***************************************************************************)
(* Centroid lemma for one node visit.  q : the cell's vector on the genes  *)
(* of the node (integer sums of its own leaf: correlation is scale         *)
(* invariant); own : its leaf; M : [leaf -> vector] of the leaves below    *)
(* the node; draws : Seq of sets of positions; child(l) the child that     *)
(* holds leaf l; out = [a, k, one] reported winner, votes, and whether the *)
(* reported correlation is 1 within 1e-9.                                  *)
(***************************************************************************)
Premise(q, own, M, draws) ==
    \A d \in 1..Len(draws) :
        /\ Var(q, draws[d]) > 0
        /\ \A b \in (DOMAIN M) \ {own} : ~CorrIsOne(q, M[b], draws[d])
CentroidErr(q, own, M, draws, childOfOwn, B, out) ==
    IF ~Premise(q, own, M, draws) THEN 0                   \* outside the claim
    ELSE IF ~(out.a = childOfOwn) THEN 1810                \* not assigned to its own lineage
    ELSE IF ~(out.k = B) THEN 1811                         \* bootstrapping probability below 1
    ELSE IF ~out.one THEN 1812                             \* average correlation not 1
    ELSE 0
=============================================================================
