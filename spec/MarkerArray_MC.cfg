SPECIFICATION Spec
CONSTANTS NG = 3 NP = 2 MaxOps = 2
INVARIANT InvWellFormed
INVARIANT InvViewsAgree
INVARIANT InvNeverBoth
INVARIANT InvFaithful
INVARIANT InvNames
INVARIANT InvCommute
INVARIANT InvLoadIsThin
CHECK_DEADLOCK FALSE
