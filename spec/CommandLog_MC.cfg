SPECIFICATION MCSpec
CONSTANTS Msgs = {"m", "p"} MaxOps = 3
INVARIANT FileIsWrites
INVARIANT CloudSafeBlocksClean
INVARIANT Accounted
PROPERTY MCAppendOnly
PROPERTY MCErrorRaises
CHECK_DEADLOCK FALSE
