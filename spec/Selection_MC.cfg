SPECIFICATION Spec
CONSTANTS NP = 2 NG = 4 Nper = 2
INVARIANT CoverageAtDone
INVARIANT AlwaysUseful
INVARIANT AllFilledAtDone
INVARIANT FilledJustified
CHECK_DEADLOCK FALSE
