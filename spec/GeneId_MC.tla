----------------------------- MODULE GeneId_MC -----------------------------
EXTENDS GeneId, Json
ASSUME Sound
\* scenario emission: every list up to MaxLen with what the model says about it
Emit(dummy) == \A list \in Lists :
    PrintT(<<"SCN", ToJson([list |-> list, detect |-> Detect(list), resolve |-> Resolve(list).outcome,
                             nun |-> [s \in Species |-> NUn(s, list)]])>>)
ASSUME Emit(0)
Bounded == ncall <= MaxCalls
=============================================================================
