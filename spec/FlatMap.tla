------------------------------- MODULE FlatMap -------------------------------
(***************************************************************************)
(* Flat correlation mapping (corr/correlate_cells.py: corrmap_cells,       *)
(* correlate_cells, _prep_data; corr/utils.py: match_genes): every query   *)
(* cell is compared with the mean profile of every cluster of the          *)
(* statistics file on the genes both files know (restricted to a marker    *)
(* list when one is given) - no taxonomy, no bootstrap.                    *)
(*                                                                         *)
(* Genes are names; vectors are functions gene -> Int (integer log2(CPM+1) *)
(* values; cluster profiles enter as sums, correlation being scale         *)
(* invariant).  Extension suite X02.                                       *)
(***************************************************************************)
EXTENDS Election

\* genes used, or the reason why the call must fail
Used(refGenes, qGenes, markers, hasMarkers) ==
    IF hasMarkers THEN refGenes \cap qGenes \cap markers ELSE refGenes \cap qGenes
PrepError(refGenes, qGenes, markers, hasMarkers) ==
    IF hasMarkers /\ markers \cap qGenes = {} THEN "no_marker_in_query"
    ELSE IF hasMarkers /\ markers \cap refGenes = {} THEN "no_marker_in_reference"
    ELSE IF Used(refGenes, qGenes, markers, hasMarkers) = {} THEN "no_overlap"
    ELSE "ok"

\* nearest clusters of a cell on the used genes (a set: exact ties)
Nearest(q, M, U) == Best(q, M, U)

(***************************************************************************)
(* corrmap_cells returns one record per query cell.  The records are       *)
(* appended to a shared list by whichever worker finishes first, so their  *)
(* ORDER is that of completion; as a set they are exactly the query cells. *)
(*   recs : sequence of <<cell id, cluster>>; cells : [id -> vector]       *)
(***************************************************************************)
CorrmapErr(recs, cells, M, U) ==
    IF ~(Len(recs) = Cardinality(DOMAIN cells)) THEN 2202
    ELSE IF ~({recs[i][1] : i \in 1..Len(recs)} = DOMAIN cells) THEN 2202        \* every cell exactly once
    ELSE IF ~(\A i \in 1..Len(recs) : recs[i][2] \in Nearest(cells[recs[i][1]], M, U)) THEN 2203
    ELSE 0

(***************************************************************************)
(* correlate_cells writes the full cell x cluster correlation matrix; its  *)
(* columns follow the statistics file's own cluster table.  Observed per   *)
(* row: the set of columns whose value is maximal (to 1e-9).               *)
(*   rows : sequence (query order) of [id, top : set of clusters]          *)
(***************************************************************************)
MatrixErr(rows, order, cells, M, U) ==
    IF ~(Len(rows) = Len(order)) THEN 2206
    ELSE IF ~(\A i \in 1..Len(rows) : rows[i].id = order[i]) THEN 2207            \* row i is the i-th query cell
    ELSE IF ~(\A i \in 1..Len(rows) : rows[i].top = Nearest(cells[rows[i].id], M, U)) THEN 2204
    ELSE 0
=============================================================================
