SPECIFICATION Spec
CONSTANTS MaxN = 12 MaxM = 30 Deep = {"a"}
INVARIANT InvPartial
INVARIANT InvFinal
INVARIANT InvResultWellFormed
INVARIANT InvIdentity
INVARIANT InvMonotone
CHECK_DEADLOCK FALSE
