---------------------------- MODULE Outputs_Trace ----------------------------
(***************************************************************************)
(* The three output files of real mapping runs, projected by               *)
(* harness/checks/c15.py, against Outputs.tla.  One NDJSON line per run:   *)
(*  {hier, leaf, B, K, named, cells, json_ids, json, csv_ids, csv, h5_ids, *)
(*   h5, tree_in, tree_out, header:[bool,bool,bool]}                       *)
(* json/h5: per cell a list of {lev,a,k,ru:[[n,k]..],direct};              *)
(* csv: per row a list of {lev,label,name,alias,conf}.                     *)
(* Name tables are encoded by the projection as name = 1000 + node,        *)
(* alias = 2000 + node when present, = node when absent.                   *)
(***************************************************************************)
EXTENDS Outputs, TLC, Json, IOUtils

Traces == ndJsonDeserialize(IOEnv.TRACE_FILE)
N == Len(Traces)
VARIABLES tid, l
vars == <<tid, l>>

Entry(x) == [lev |-> x.lev, a |-> x.a, k |-> x.k, direct |-> x.direct,
             ru |-> [i \in 1..Len(x.ru) |-> <<x.ru[i][1], x.ru[i][2]>>]]
Entries(s) == [i \in 1..Len(s) |-> Entry(s[i])]

Err(r) ==
    LET n == Len(r.cells)
        NameF(lev, a) == IF r.named THEN 1000 + a ELSE a
        AliasF(lev, a) == IF r.named THEN 2000 + a ELSE a
    IN
    IF ~(r.json_ids = r.cells) THEN 1520
    ELSE IF ~(r.csv_ids = r.cells) THEN 1521                 \* one row per cell in query order
    ELSE IF ~(r.h5_ids = r.cells) THEN 1522                  \* every cell id read back
    ELSE IF ~(Len(r.json) = n /\ Len(r.csv) = n /\ Len(r.h5) = n) THEN 1523
    ELSE IF ~(r.header[1]) THEN 1524                         \* comment line naming the JSON file
    ELSE IF ~(r.header[2]) THEN 1525                         \* comment line with the hierarchy
    ELSE IF ~(r.header[3]) THEN 1526                         \* comment line with the version
    ELSE IF ~(r.tree_in = r.tree_out) THEN 1527              \* embedded taxonomy = input without cells
    ELSE LET herr == {H5Err(Entries(r.json[i]), Entries(r.h5[i])) : i \in 1..n} \ {0}
             cerr == {CsvErr(Entries(r.json[i]), r.csv[i], r.hier, r.leaf, NameF, AliasF, r.B)
                         : i \in 1..n} \ {0}
         IN IF herr # {} THEN Min(herr)
            ELSE IF cerr # {} THEN Min(cerr)
            ELSE 0

ASSUME \A i \in 1..(2 * N) : TLCSet(i, 0)
Init == tid \in 1..N /\ l = 1
Step == /\ l = 1
        /\ LET c == Err(Traces[tid]) IN
           IF c = 0 THEN l' = 2 /\ UNCHANGED tid ELSE TLCSet(N + tid, c) /\ FALSE
Spec == Init /\ [][Step]_vars
Track == IF TLCGet(tid) < l THEN TLCSet(tid, l) ELSE TRUE
Report == \A i \in 1..N : PrintT(<<"VERDICT", i, TLCGet(i), 2, TLCGet(N + i)>>)
=============================================================================
