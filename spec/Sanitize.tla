------------------------------ MODULE Sanitize ------------------------------
(***************************************************************************)
(* Path sanitising of cloud-safe runs (utils/cloud_utils.py:               *)
(* sanitize_paths, is_exposed, _word_to_path; cli/cli_log.py: write_log;   *)
(* cli/from_specified_markers.py: run_mapping).                            *)
(*                                                                         *)
(* A message is a sequence of whitespace-separated words.  A word is       *)
(*   [shape, ref]                                                          *)
(* shape: how an absolute path is embedded in the word                     *)
(*   "plain"    no path at all                                             *)
(*   "bare"     /a/b/c                                                     *)
(*   "quoted"   '/a/b/c'  or "/a/b/c"                                      *)
(*   "trailing" /a/b/c,   /a/b/c:   '/a/b/c',   (punctuation after)        *)
(*   "leading"  (/a/b/c   [/a/b/c   </a/b/c     (punctuation before)       *)
(*   "keyeq"    key=/a/b/c                                                 *)
(*   "repr"     PosixPath('/a/b/c')                                        *)
(*   "colon"    name:/a/b/c                                                *)
(* ref: what the embedded path refers to on the host                       *)
(*   "file"     an existing file or directory                              *)
(*   "child"    a non-existing name below an existing directory            *)
(*   "deep"     a non-existing name two or more missing levels below an    *)
(*              existing directory                                         *)
(*   "long"     an existing file whose absolute path is longer than 255    *)
(*              characters (every single component is short)               *)
(*   "package"  a source file of the installed package                     *)
(*   "odd_file" an existing file spelled with a doubled slash              *)
(*   "odd_child" a non-existing name below an existing directory, spelled  *)
(*              with a /./ segment and a doubled slash                     *)
(*   "toplevel" a non-existing name directly below an existing top-level   *)
(*              directory (/tmp/name)                                      *)
(*   "nowhere"  no component below / exists                                *)
(*   "none"     (shape = plain)                                            *)
(* The sanitiser removes quotes only, turns the word into a path and asks  *)
(* whether the path or any ancestor other than / or . exists.  A word that *)
(* does not START with the path is a relative path whose first component   *)
(* (e.g. "(" or "key=") does not exist, so it is not recognised.           *)
(***************************************************************************)
EXTENDS Integers, Sequences, FiniteSets, TLC

Shapes == {"plain", "bare", "quoted", "trailing", "leading", "keyeq", "repr", "colon"}
Refs == {"file", "child", "deep", "long", "package", "odd_file", "odd_child", "toplevel", "nowhere", "none"}
ResolvingRefs == {"file", "child", "deep", "long", "package", "odd_file", "odd_child", "toplevel"}
Words == {w \in [shape : Shapes, ref : Refs] : (w.shape = "plain") <=> (w.ref = "none")}

StartsWithPath(w) == w.shape \in {"bare", "quoted", "trailing"}
Resolves(w) == w.ref \in ResolvingRefs     \* some ancestor below / exists

\* outcome of sanitize_paths on one word
Sanitized(w) ==
    IF StartsWithPath(w) /\ Resolves(w)
    THEN IF w.ref = "package" THEN "package_relative" ELSE "file_name"
    ELSE "kept"

\* a word that still shows an absolute path of the host after sanitising
Leaks(w) == Sanitized(w) = "kept" /\ w.shape # "plain" /\ Resolves(w)

SafeShapes == {"plain", "bare", "quoted", "trailing"}
UnsafeShapes == Shapes \ SafeShapes

\* the sanitiser is sound for words that start with the path ...
SafeShapesNeverLeak == \A w \in Words : w.shape \in SafeShapes => ~Leaks(w)
\* ... and only for those: every other shape leaks for every resolvable referent.  C20 therefore
\* needs that no source (configuration, info / warning messages, tracebacks, third-party error
\* texts) ever emits a resolvable path in an unsafe shape - which is what the scan of real
\* outputs checks.
UnsafeShapesAlwaysLeak == \A w \in Words : (w.shape \in UnsafeShapes /\ Resolves(w)) => Leaks(w)

(***************************************************************************)
(* Flow of a run: sources -> CommandLog -> sinks.  The configuration is    *)
(* sanitised up front and the scratch / output directory keys are removed; *)
(* the log is sanitised when written to the log file and when embedded in  *)
(* the JSON / HDF5 output.                                                 *)
(***************************************************************************)
VARIABLES log, sinks, pcS
svars == <<log, sinks, pcS>>
Sources == {"config", "info", "warn", "traceback", "thirdparty"}
\* shapes each source is assumed to emit (the assumption the traces validate)
Emits(src) == IF src = "config" THEN {"plain", "bare"}
              ELSE IF src = "traceback" THEN {"plain", "trailing", "quoted"}
              ELSE {"plain", "bare", "quoted", "trailing"}
SInit == log = {} /\ sinks = {} /\ pcS = "run"
Emit(src) == /\ pcS = "run"
             /\ \E w \in Words : w.shape \in Emits(src) /\ log' = log \cup {w}
             /\ UNCHANGED <<sinks, pcS>>
WriteOut == /\ pcS = "run" /\ sinks' = {[shape |-> w.shape, ref |-> w.ref, out |-> Sanitized(w)] : w \in log}
            /\ pcS' = "done" /\ UNCHANGED log
SNext == (\E s \in Sources : Emit(s)) \/ WriteOut
SSpec == SInit /\ [][SNext]_svars
NoLeakInSinks == \A s \in sinks : ~(s.out = "kept" /\ s.shape # "plain" /\ s.ref \in ResolvingRefs)

Small == Cardinality(log) <= 3
ASSUME SafeShapesNeverLeak /\ UnsafeShapesAlwaysLeak

\* scenario emission: the word alphabet with the predicted outcome
EmitAlphabet == \A w \in Words : PrintT(<<"WORD", w.shape, w.ref, Sanitized(w), Leaks(w)>>)
=============================================================================
