----------------------------- MODULE Taxonomy -----------------------------
(***************************************************************************)
(* The cell type taxonomy as cell_type_mapper stores it                    *)
(* (taxonomy/taxonomy_tree.py, taxonomy/utils.py).                         *)
(*                                                                         *)
(* A tree value is the record                                              *)
(*   [hier  : Seq(Level)            ordered level labels, top first        *)
(*    keys  : SUBSET Level          levels that have a table in the dict   *)
(*    nodes : [Level -> SUBSET Node] node keys of each level table         *)
(*    kids  : [Level -> [Node -> SUBSET Node]]  listed children (non-leaf) *)
(*    cells : [Node -> SUBSET Cell]] reference cells of each leaf          *)
(* which is exactly the information of the JSON dict (children lists are   *)
(* sets here; the "listed twice" variant is handled by the harness).       *)
(* All operators are pure; the state machines that use them are in         *)
(* Taxonomy_MC (design check), Taxonomy_Gen (scenario emission) and        *)
(* Taxonomy_Trace (validation of behaviours of the real TaxonomyTree).     *)
(***************************************************************************)
EXTENDS Integers, Sequences, FiniteSets, FiniteSetsExt, SequencesExt, Functions

Root == <<0, 0>>          \* the "None" parent of the code

NLev(T)      == Len(T.hier)
Levels(T)    == {T.hier[i] : i \in 1..Len(T.hier)}
Pos(T, lev)  == CHOOSE i \in 1..Len(T.hier) : T.hier[i] = lev
LeafLevel(T) == T.hier[Len(T.hier)]
TopLevel(T)  == T.hier[1]
ChildLevel(T, lev)  == T.hier[Pos(T, lev) + 1]
ParentLevel(T, lev) == T.hier[Pos(T, lev) - 1]
NonLeafLevels(T) == {T.hier[i] : i \in 1..(Len(T.hier) - 1)}

(***************************************************************************)
(* validate_taxonomy_tree: the three conditions of the property plus the   *)
(* key-set condition the code checks first.                                *)
(***************************************************************************)
KeysOk(T) == /\ T.keys = Levels(T)
             /\ \A i, j \in 1..Len(T.hier) : i # j => T.hier[i] # T.hier[j]
             /\ Len(T.hier) >= 1

ChildrenExist(T) ==
    \A i \in 1..(Len(T.hier) - 1) :
        \A p \in T.nodes[T.hier[i]] : T.kids[T.hier[i]][p] \subseteq T.nodes[T.hier[i + 1]]

NParents(T, i, c) == Cardinality({p \in T.nodes[T.hier[i - 1]] : c \in T.kids[T.hier[i - 1]][p]})

ExactlyOneParent(T) ==
    \A i \in 2..Len(T.hier) : \A c \in T.nodes[T.hier[i]] : NParents(T, i, c) = 1

CellsDisjoint(T) ==
    \A a, b \in T.nodes[LeafLevel(T)] : a # b => T.cells[a] \cap T.cells[b] = {}

Accepts(T) == KeysOk(T) /\ ChildrenExist(T) /\ ExactlyOneParent(T) /\ CellsDisjoint(T)

(***************************************************************************)
(* Queries (only meaningful on accepted trees).                            *)
(***************************************************************************)
Parent(T, lev, c) ==     \* lev is not the top level
    CHOOSE p \in T.nodes[ParentLevel(T, lev)] : c \in T.kids[ParentLevel(T, lev)][p]

RECURSIVE AncestorAt(_, _, _, _)
AncestorAt(T, lev, c, alev) ==      \* Pos(alev) <= Pos(lev)
    IF alev = lev THEN c
    ELSE AncestorAt(T, ParentLevel(T, lev), Parent(T, lev, c), alev)

\* TaxonomyTree.parents(level, node): every strict ancestor, keyed by level
Ancestors(T, lev, c) ==
    [al \in {T.hier[i] : i \in 1..(Pos(T, lev) - 1)} |-> AncestorAt(T, lev, c, al)]

Children(T, par) ==     \* par = Root or <<level, node>>
    IF par = Root THEN T.nodes[TopLevel(T)] ELSE T.kids[par[1]][par[2]]

ChildLevelOf(T, par) == IF par = Root THEN TopLevel(T) ELSE ChildLevel(T, par[1])

RECURSIVE LeavesUnder(_, _, _)
LeavesUnder(T, lev, n) ==
    IF lev = LeafLevel(T) THEN {n}
    ELSE UNION {LeavesUnder(T, ChildLevel(T, lev), c) : c \in T.kids[lev][n]}

AllLeaves(T) == T.nodes[LeafLevel(T)]

\* TaxonomyTree.all_parents
AllParentsOf(T) == {Root} \cup UNION {{<<lev, n>> : n \in T.nodes[lev]} : lev \in NonLeafLevels(T)}

LeavesOfParent(T, par) ==
    IF par = Root THEN AllLeaves(T) ELSE LeavesUnder(T, par[1], par[2])

(***************************************************************************)
(* Leaf pairs to discriminate under a parent: unordered pairs of leaves    *)
(* lying under two different children of the parent.                       *)
(***************************************************************************)
LeafPairs(T, par) ==
    LET cl == ChildLevelOf(T, par)
        ch == Children(T, par)
    IN  IF par # Root /\ par[1] = LeafLevel(T) THEN {}
        ELSE UNION {{ {a, b} : a \in LeavesUnder(T, cl, c1), b \in LeavesUnder(T, cl, c2)} :
                      <<c1, c2>> \in {pr \in ch \X ch : pr[1] # pr[2]}}

(***************************************************************************)
(* Transformations.                                                        *)
(***************************************************************************)
DelAt(s, i) == [j \in 1..(Len(s) - 1) |-> IF j < i THEN s[j] ELSE s[j + 1]]

CanDrop(T, lev) == /\ Len(T.hier) > 1 /\ lev \in Levels(T) /\ lev # LeafLevel(T)

DropLevel(T, lev) ==
    LET i == Pos(T, lev)
        newLevels == Levels(T) \ {lev}
    IN  IF i = 1
        THEN [hier  |-> DelAt(T.hier, 1), keys |-> T.keys \ {lev},
              nodes |-> [l \in newLevels |-> T.nodes[l]],
              kids  |-> [l \in newLevels |-> T.kids[l]],
              cells |-> T.cells]
        ELSE LET pl == T.hier[i - 1] IN
             [hier  |-> DelAt(T.hier, i), keys |-> T.keys \ {lev},
              nodes |-> [l \in newLevels |-> T.nodes[l]],
              kids  |-> [l \in newLevels |->
                          IF l = pl
                          THEN [p \in T.nodes[pl] |-> UNION {T.kids[lev][c] : c \in T.kids[pl][p]}]
                          ELSE T.kids[l]],
              cells |-> T.cells]

Flatten(T) ==
    LET ll == LeafLevel(T) IN
    [hier |-> <<ll>>, keys |-> {ll}, nodes |-> [l \in {ll} |-> T.nodes[ll]],
     kids |-> [l \in {ll} |-> T.kids[ll]], cells |-> T.cells]

StripCells(T) == [T EXCEPT !.cells = [n \in DOMAIN T.cells |-> {}]]   \* to_str(drop_cells=True)

(***************************************************************************)
(* Building a tree from per-cell label columns (get_taxonomy_tree).        *)
(* rows : Seq of label tuples, one per cell, rows[r][i] the label at the   *)
(* i-th level; cells are identified by their row number.                   *)
(***************************************************************************)
FromLabelColumns(hier, rows) ==
    LET L == Len(hier)
        R == 1..Len(rows)
        lv == {hier[i] : i \in 1..L}
        idx(l) == CHOOSE i \in 1..L : hier[i] = l
    IN [hier  |-> hier, keys |-> lv,
        nodes |-> [l \in lv |-> {rows[r][idx(l)] : r \in R}],
        kids  |-> [l \in lv |-> [n \in {rows[r][idx(l)] : r \in R} |->
                      IF idx(l) = L THEN {}
                      ELSE {rows[r][idx(l) + 1] : r \in {q \in R : rows[q][idx(l)] = n}}]],
        cells |-> [n \in {rows[r][L] : r \in R} |-> {r \in R : rows[r][L] = n}]]

(***************************************************************************)
(* Properties of C10, stated over a tree T0 and a derived tree T1.         *)
(***************************************************************************)
SameLeaves(T0, T1) == AllLeaves(T0) = AllLeaves(T1) /\ T0.cells = T1.cells

\* every leaf keeps its ancestor at every level that remains
AncestorsPreserved(T0, T1) ==
    \A lf \in AllLeaves(T1) : \A al \in Levels(T1) :
        AncestorAt(T1, LeafLevel(T1), lf, al) = AncestorAt(T0, LeafLevel(T0), lf, al)

\* the descendant leaves of a node's children partition the node's leaves
Partition(T) ==
    \A par \in AllParentsOf(T) :
        LET cl == ChildLevelOf(T, par) ch == Children(T, par) IN
        /\ UNION {LeavesUnder(T, cl, c) : c \in ch} = LeavesOfParent(T, par)
        /\ \A c1, c2 \in ch : c1 # c2 => LeavesUnder(T, cl, c1) \cap LeavesUnder(T, cl, c2) = {}

\* parent and child queries are mutually inverse
ParentChildInverse(T) ==
    /\ \A i \in 2..Len(T.hier) : \A c \in T.nodes[T.hier[i]] :
          c \in T.kids[T.hier[i - 1]][Parent(T, T.hier[i], c)]
    /\ \A i \in 1..(Len(T.hier) - 1) : \A p \in T.nodes[T.hier[i]] :
          \A c \in T.kids[T.hier[i]][p] : Parent(T, T.hier[i + 1], c) = p

\* leaf pairs: exactly the pairs separated at this parent
LeafPairsRight(T) ==
    \A par \in AllParentsOf(T) :
        LET cl == ChildLevelOf(T, par) IN
        LeafPairs(T, par) =
          { {a, b} : <<a, b>> \in
               {pr \in LeavesOfParent(T, par) \X LeavesOfParent(T, par) :
                   /\ pr[1] # pr[2]
                   /\ AncestorAt(T, LeafLevel(T), pr[1], cl) # AncestorAt(T, LeafLevel(T), pr[2], cl)} }
=============================================================================
